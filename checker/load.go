package main

import (
	"fmt"
	"go/token"
	"go/types"
	"os"
	"sort"
	"strings"

	"golang.org/x/tools/go/callgraph"
	"golang.org/x/tools/go/callgraph/cha"
	"golang.org/x/tools/go/callgraph/vta"
	"golang.org/x/tools/go/packages"
	"golang.org/x/tools/go/ssa"
	"golang.org/x/tools/go/ssa/ssautil"
)

const modPath = "github.com/privacybydesign/gabi"

// Program is the loaded, type-checked, SSA-built module under analysis.
type Program struct {
	Dir    string
	Config string // e.g. linux/amd64
	Fset   *token.FileSet
	Pkgs   []*packages.Package
	SSA    *ssa.Program
	// module-internal functions by short key, e.g. "gabi.(*ProofD).Verify"
	Funcs map[string]*ssa.Function
	// all module-internal functions (incl. anonymous)
	AllFuncs []*ssa.Function
	CG       *callgraph.Graph
	// callee edges per call instruction (module-internal callees only)
	calleesOf map[ssa.CallInstruction][]*ssa.Function
	PkgByName map[string]*ssa.Package
	bigConsts map[*ssa.Global]*int64
}

// shortPkg maps an import path of the module to its short name.
func shortPkg(path string) string {
	if path == modPath {
		return "gabi"
	}
	if strings.HasPrefix(path, modPath+"/") {
		rest := strings.TrimPrefix(path, modPath+"/")
		return rest[strings.LastIndex(rest, "/")+1:]
	}
	return path
}

func inModule(pkg *types.Package) bool {
	if pkg == nil {
		return false
	}
	return pkg.Path() == modPath || strings.HasPrefix(pkg.Path(), modPath+"/")
}

// FuncKey returns the short stable key of a function.
// forwardName: an unexported function that holds the body of an exported one (`func (s *T) M(a) R { return m(s, a) }`)
// goes by the exported function's name, and the exported name resolves to that body: moving a method's body into a
// function that takes the receiver as its first argument (or into an unexported typed variant) is not a change.
var forwardName = map[*ssa.Function]string{}

// forwardTarget: w does nothing but call g with its own parameters in order and return g's results.
func forwardTarget(w *ssa.Function) *ssa.Function {
	if w == nil || len(w.Blocks) != 1 || w.Parent() != nil || w.Synthetic != "" {
		return nil
	}
	var call *ssa.Call
	var ret *ssa.Return
	for _, ins := range w.Blocks[0].Instrs {
		switch x := ins.(type) {
		case *ssa.Call:
			if call != nil {
				return nil
			}
			call = x
		case *ssa.Return:
			ret = x
		case *ssa.Extract, *ssa.DebugRef, *ssa.MakeInterface, *ssa.ChangeType:
		default:
			return nil
		}
	}
	if call == nil || ret == nil || call.Call.IsInvoke() {
		return nil
	}
	g := call.Call.StaticCallee()
	if g == nil || g == w || g.Blocks == nil || g.Pkg != w.Pkg || g.Parent() != nil || g.Object() == nil || g.Object().Exported() {
		return nil
	}
	if len(callArgs(call)) != len(w.Params) {
		return nil
	}
	for i, a := range callArgs(call) {
		if a != ssa.Value(w.Params[i]) {
			return nil
		}
	}
	// results handed on unchanged
	strip := func(v ssa.Value) ssa.Value {
		for {
			switch x := v.(type) {
			case *ssa.MakeInterface:
				v = x.X
				continue
			case *ssa.ChangeType:
				v = x.X
				continue
			}
			return v
		}
	}
	if retCount(ret) == 1 {
		if strip(retValue(ret, 0)) != ssa.Value(call) {
			return nil
		}
	} else {
		for i, r := range ret.Results {
			ex, ok := r.(*ssa.Extract)
			if !ok || ex.Tuple != ssa.Value(call) || ex.Index != i {
				return nil
			}
		}
	}
	return g
}

func FuncKey(f *ssa.Function) string {
	if f == nil {
		return "<nil>"
	}
	if k, ok := forwardName[f]; ok {
		return k
	}
	if k, ok := funcAlias[f]; ok {
		return k
	}
	if f.Parent() != nil {
		// anonymous function: parent key + $n
		return FuncKey(f.Parent()) + "$" + strings.TrimPrefix(f.Name()[strings.LastIndex(f.Name(), "$"):], "$")
	}
	if o := f.Origin(); o != nil && o != f {
		f = o
	}
	pkg := ""
	if f.Pkg != nil {
		pkg = shortPkg(f.Pkg.Pkg.Path())
	} else if f.Object() != nil && f.Object().Pkg() != nil {
		pkg = shortPkg(f.Object().Pkg().Path())
	}
	if recv := f.Signature.Recv(); recv != nil {
		t := recv.Type()
		ptr := ""
		if p, ok := t.(*types.Pointer); ok {
			ptr = "*"
			t = p.Elem()
		}
		name := "?"
		if n, ok := t.(*types.Named); ok {
			name = n.Obj().Name()
			if n.Obj().Pkg() != nil {
				pkg = shortPkg(n.Obj().Pkg().Path())
			}
			if a, ok := typeNameAlias[pkg+"."+name]; ok {
				name = a[strings.Index(a, ".")+1:]
			}
		}
		// an unexported method whose name occurs once in its package goes by `pkg.name`, like the function it
		// would be if it took its receiver as first argument (the shape is not part of a helper's identity)
		if uniqueUnexported[pkg+"."+f.Name()] && f.Object() != nil && !f.Object().Exported() {
			return pkg + "." + f.Name()
		}
		if ptr != "" {
			return fmt.Sprintf("%s.(*%s).%s", pkg, name, f.Name())
		}
		return fmt.Sprintf("%s.(%s).%s", pkg, name, f.Name())
	}
	return pkg + "." + f.Name()
}

// normaliseComparisons rewrites the analysis IR in place so that a comparison with a constant has the constant on
// the right (`0 != x.Cmp(y)` becomes `x.Cmp(y) != 0`, `5 > n` becomes `n < 5`): both operands stay operands of the
// same instruction, so no use lists change. Rules then see one spelling.
func normaliseComparisons(all map[*ssa.Function]bool) {
	flip := map[token.Token]token.Token{token.LSS: token.GTR, token.GTR: token.LSS, token.LEQ: token.GEQ, token.GEQ: token.LEQ, token.EQL: token.EQL, token.NEQ: token.NEQ}
	for f := range all {
		for _, b := range f.Blocks {
			for _, ins := range b.Instrs {
				bo, ok := ins.(*ssa.BinOp)
				if !ok {
					continue
				}
				fl, isCmp := flip[bo.Op]
				if !isCmp {
					continue
				}
				_, xc := bo.X.(*ssa.Const)
				_, yc := bo.Y.(*ssa.Const)
				if xc && !yc {
					bo.X, bo.Y, bo.Op = bo.Y, bo.X, fl
				}
			}
		}
	}
}

// Load loads ./... under dir for the given GOOS/GOARCH.
func Load(dir, goos, goarch string) (*Program, error) {
	env := append(os.Environ(), "GOWORK=off", "GOFLAGS=-mod=mod", "GOPROXY=off", "GOSUMDB=off", "GOTOOLCHAIN=local")
	if goos != "" {
		env = append(env, "GOOS="+goos, "GOARCH="+goarch, "CGO_ENABLED=0")
	}
	cfg := &packages.Config{
		Mode:  packages.LoadAllSyntax,
		Dir:   dir,
		Tests: false,
		Env:   env,
	}
	pkgs, err := packages.Load(cfg, "./...")
	if err != nil {
		return nil, err
	}
	var errs []string
	packages.Visit(pkgs, nil, func(p *packages.Package) {
		for _, e := range p.Errors {
			errs = append(errs, e.Error())
		}
	})
	if len(errs) > 0 {
		return nil, fmt.Errorf("type/load errors: %s", strings.Join(errs, "; "))
	}
	n := 0
	for _, p := range pkgs {
		if inModule(p.Types) {
			n++
		}
	}
	if n < 10 {
		return nil, fmt.Errorf("expected >= 10 module packages, loaded %d", n)
	}
	prog, _ := ssautil.AllPackages(pkgs, ssa.InstantiateGenerics)
	prog.Build()

	P := &Program{Dir: dir, Fset: prog.Fset, Pkgs: pkgs, SSA: prog,
		Funcs: map[string]*ssa.Function{}, calleesOf: map[ssa.CallInstruction][]*ssa.Function{},
		PkgByName: map[string]*ssa.Package{}}
	if goos == "" {
		P.Config = "host"
	} else {
		P.Config = goos + "/" + goarch
	}
	for _, p := range prog.AllPackages() {
		if inModule(p.Pkg) {
			P.PkgByName[shortPkg(p.Pkg.Path())] = p
		}
	}
	{
		var tp []*types.Package
		for _, p := range pkgs {
			tp = append(tp, p.Types)
		}
		computeTypeAliases(tp)
	}
	computeGlobalAliases(prog)
	all := ssautil.AllFunctions(prog)
	normaliseComparisons(all)
	// names of unexported functions/methods that occur once in their (module) package
	{
		cnt := map[string]int{}
		for f := range all {
			if f.Parent() != nil || f.Object() == nil || f.Object().Exported() || f.Synthetic != "" {
				continue
			}
			if o := f.Origin(); o != nil && o != f {
				continue
			}
			var pk *types.Package
			if f.Pkg != nil {
				pk = f.Pkg.Pkg
			} else {
				pk = f.Object().Pkg()
			}
			if !inModule(pk) {
				continue
			}
			cnt[shortPkg(pk.Path())+"."+f.Name()]++
		}
		for k, n := range cnt {
			if n == 1 {
				uniqueUnexported[k] = true
			}
		}
	}
	computeFuncAliases(all)
	for f := range all {
		var pk *types.Package
		if f.Pkg != nil {
			pk = f.Pkg.Pkg
		} else if f.Object() != nil {
			pk = f.Object().Pkg()
		} else if f.Parent() != nil && f.Parent().Pkg != nil {
			pk = f.Parent().Pkg.Pkg
		}
		if !inModule(pk) {
			continue
		}
		if f.Synthetic != "" && f.Blocks == nil {
			continue
		}
		// skip wrappers/thunks/instantiations: keep source functions and their origins
		if f.Synthetic != "" && !strings.HasPrefix(f.Synthetic, "package initializer") {
			continue
		}
		P.AllFuncs = append(P.AllFuncs, f)
		k := FuncKey(f)
		if old, ok := P.Funcs[k]; ok && old != f {
			// instantiation vs origin: prefer origin
			if f.Origin() == nil || f.Origin() == f {
				P.Funcs[k] = f
			}
			continue
		}
		P.Funcs[k] = f
	}
	// exported functions that only forward to an unexported body: the name denotes the body
	nFwd := map[*ssa.Function]int{}
	fwd := map[*ssa.Function]*ssa.Function{}
	for _, w := range P.AllFuncs {
		if w.Object() == nil || !w.Object().Exported() {
			continue
		}
		if g := forwardTarget(w); g != nil {
			fwd[w] = g
			nFwd[g]++
		}
	}
	for w, g := range fwd {
		if nFwd[g] != 1 {
			continue
		}
		k := FuncKey(w)
		forwardName[g] = k
		P.Funcs[k] = g
	}
	sort.Slice(P.AllFuncs, func(i, j int) bool { return FuncKey(P.AllFuncs[i]) < FuncKey(P.AllFuncs[j]) })

	P.CG = vta.CallGraph(all, cha.CallGraph(prog))
	for _, node := range P.CG.Nodes {
		for _, e := range node.Out {
			if e.Site == nil || e.Callee == nil || e.Callee.Func == nil {
				continue
			}
			P.calleesOf[e.Site] = append(P.calleesOf[e.Site], e.Callee.Func)
		}
	}
	computeFieldAliases(P)
	computeParamPerms(P)
	computeResPerms(P)
	return P, nil
}

// Pos renders a position relative to the repo dir.
func (P *Program) Pos(p token.Pos) string {
	if !p.IsValid() {
		return "-"
	}
	ps := P.Fset.Position(p)
	f := strings.TrimPrefix(ps.Filename, P.Dir+"/")
	return fmt.Sprintf("%s:%d", f, ps.Line)
}

// Func returns the function with the given key or nil. An unexported function is also found under the key of its
// other shape (`pkg.(*T).name` for `pkg.name` and the reverse) when its name is unique in the package: turning a
// method into a function that takes the receiver as an argument, or back, does not change what a rule is about.
func (P *Program) Func(key string) *ssa.Function {
	if f, ok := P.Funcs[key]; ok {
		return f
	}
	nk := normKey(key)
	var found *ssa.Function
	for k, f := range P.Funcs {
		if normKey(k) == nk {
			if found != nil && found != f {
				return nil
			}
			found = f
		}
	}
	if found == nil {
		// the method of an unexported type with the other kind of receiver (`func (w witness) M` for
		// `func (w *witness) M`): the same method, as long as only one of the two forms exists
		if alt := toggleReceiver(key); alt != "" {
			if f, ok := P.Funcs[alt]; ok {
				return f
			}
		}
	}
	return found
}

// toggleReceiver: "pkg.(*t).M" <-> "pkg.(t).M" for unexported receiver types; "" otherwise.
func toggleReceiver(key string) string {
	i := strings.Index(key, ".(")
	j := strings.Index(key, ").")
	if i < 0 || j < i {
		return ""
	}
	recv := key[i+2 : j]
	name := strings.TrimPrefix(recv, "*")
	if name == "" || !(name[0] >= 'a' && name[0] <= 'z') {
		return ""
	}
	if strings.HasPrefix(recv, "*") {
		return key[:i+2] + name + key[j:]
	}
	return key[:i+2] + "*" + name + key[j:]
}

// uniqueUnexported: "pkg.name" of unexported functions and methods whose name occurs once in their package.
var uniqueUnexported = map[string]bool{}

// normKey drops the receiver from the key of an unexported method whose name is unique in its package.
func normKey(k string) string {
	i := strings.Index(k, ".(")
	if i < 0 {
		return k
	}
	j := strings.Index(k[i:], ").")
	if j < 0 {
		return k
	}
	pkg, name := k[:i], k[i+j+2:]
	if name == "" || !(name[0] >= 'a' && name[0] <= 'z') || strings.ContainsAny(name, "$.") {
		return k
	}
	if uniqueUnexported[pkg+"."+name] {
		return pkg + "." + name
	}
	return k
}

// sameFn: two function keys denote the same function up to the method/function shape of an unexported helper.
func sameFn(a, b string) bool { return a == b || normKey(a) == normKey(b) }
