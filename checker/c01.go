package main

import (
	"fmt"
	"strings"

	"golang.org/x/tools/go/ssa"
)

const (
	kProofDVerify = "gabi.(*ProofD).Verify"
	kProofDVWC    = "gabi.(*ProofD).VerifyWithChallenge"
	kProofDCC     = "gabi.(*ProofD).ChallengeContribution"
	kProofUVerify = "gabi.(*ProofU).Verify"
	kProofUVWC    = "gabi.(*ProofU).VerifyWithChallenge"
	kProofUCC     = "gabi.(*ProofU).ChallengeContribution"
	kListVerify   = "gabi.(ProofList).Verify"
)

// proofDParts: the two halves of a ProofD verification. The composite entry points
// ((*ProofD).Verify, ProofList.Verify) call both (C01.b / C02.c), so an obligation on "accept of ProofD
// verification" holds when one half establishes it on all of its accepting paths.
func proofDParts(P *Program, R *Report, rule string) []fnAcc {
	cc := mustFunc(P, R, rule, kProofDCC)
	vwc := mustFunc(P, R, rule, kProofDVWC)
	return []fnAcc{{vwc, AcceptTrue(0)}, {cc, AcceptNilErr(1)}}
}

func proofUParts(P *Program, R *Report, rule string) []fnAcc {
	cc := mustFunc(P, R, rule, kProofUCC)
	vwc := mustFunc(P, R, rule, kProofUVWC)
	return []fnAcc{{vwc, AcceptTrue(0)}, {cc, AcceptNilErr(1)}}
}

// guardRange records two obligations: the subject is rejected iff < lower and iff >= upperExcl.
func guardRangeObl(P *Program, R *Report, rule, construct, subjName string, subj func(string) bool, lower, upperExcl Term, parts []fnAcc) {
	mkLower := func() *MustPass {
		return &MustPass{Match: func(a Atom) bool {
			g, ok := P.guardOf(a)
			if !ok || g.Kind != "big" || !subj(g.Subject) {
				return false
			}
			t, ok := g.inclusiveLower()
			return ok && t.equal(lower)
		}}
	}
	mkUpper := func() *MustPass {
		return &MustPass{Match: func(a Atom) bool {
			g, ok := P.guardOf(a)
			if !ok || !subj(g.Subject) {
				return false
			}
			return guardUpperIs(g, upperExcl)
		}}
	}
	mpEither(P, R, rule, construct+":lower", fmt.Sprintf("accept => %s >= %s was tested (reject iff below)", subjName, lower), mkLower, parts...)
	mpEither(P, R, rule, construct+":upper", fmt.Sprintf("accept => %s < %s was tested with exactly this bound", subjName, upperExcl), mkUpper, parts...)
	// diagnostic: list the guards that exist on the subject, so that a wrong bound is reported as such
}

func init() {
	register("C01",
		Rule{ID: "C01.j", Explain: "the randomized signature A is a unit: A is chosen by the prover and is a base of the verified relation, so it has to be invertible modulo N - with A = 0 (or N, 2N) the reconstructed commitment is 0 whatever the responses are, and a proof made up without a credential is accepted. ChallengeContribution (through reconstructZ) returns a contribution only after a value that depends on A was inverted modulo N successfully (ModInverse result nil-tested) or after gcd(A, N) = 1 was tested.",
			Run: func(P *Program, R *Report) {
				fn := mustFunc(P, R, "C01.j", kProofDCC)
				if fn == nil {
					return
				}
				inv := func(a Atom) bool {
					if a.Want != NonNil {
						return false
					}
					c, _ := callAndResult(a.V)
					if c == nil || bigMethod(c) != "ModInverse" || len(callArgs(c)) < 3 || desc(callArgs(c)[2]) != pkD+".N" {
						return false
					}
					return descSet(depsIP(P, []ssa.Value{callArgs(c)[1]}, 3))["<gabi.ProofD>.A"]
				}
				mp(P, R, "C01.j", kProofDCC+":A-invertible", "a contribution is returned => A was shown to be invertible modulo N", fn, AcceptNilErr(1),
					&MustPass{Match: anyOf(inv, invertibleMatcher(P, is("<gabi.ProofD>.A"), pkD+".N"))})
			}},
		Rule{ID: "C01.i", Explain: "the derived lengths are the specified ones: MakeDerivedParameters computes every derived system parameter as the linear combination of the base parameters that the Idemix specification gives (Le = Lstatzk+Lh+Lm+5, LeCommit = LePrime+Lstatzk+Lh, LmCommit = Lm+Lstatzk+Lh, LsCommit = LmCommit+1, Lv = Ln+2*Lstatzk+Lh+Lm+4, LvCommit = Lv+Lstatzk+Lh, LRA = LvPrime = Ln+Lstatzk, LvPrimeCommit = Ln+2*Lstatzk+Lh), compared as normalised affine forms (how the sum is written does not matter). Prover randomizers and the verifier's response bounds both read these values, so a wrong one keeps honest flows working while widening what the verifier accepts (an e-response bound derived from Le instead of LePrime admits the trivial signature e = 1).",
			Run: func(P *Program, R *Report) { derivedParametersRule(P, R, "C01.i") }},
		Rule{ID: "C01.a", Explain: "(*ProofD).VerifyWithChallenge: on every accepting path the proof's own C was compared equal to the challenge parameter (must-pass over the SSA CFG, callee-aware). Does not decide soundness of the Schnorr proof.",
			Run: func(P *Program, R *Report) {
				fn := mustFunc(P, R, "C01.a", kProofDVWC)
				mp(P, R, "C01.a", kProofDVWC+":C==challenge", "accept => p.C compared equal to the reconstructed challenge parameter", fn, AcceptTrue(0),
					&MustPass{Match: eqMatcher(is("<gabi.ProofD>.C"), is("arg#2"))})
			}},
		Rule{ID: "C01.b", Explain: "(*ProofD).Verify: accept => VerifyWithChallenge(pk, createChallenge(context, nonce1, ChallengeContribution(pk), issig)) returned true, with the function's own parameters in their roles.",
			Run: func(P *Program, R *Report) {
				fn := mustFunc(P, R, "C01.b", kProofDVerify)
				mp(P, R, "C01.b", kProofDVerify+":challenge-roles", "accept => VerifyWithChallenge(pk, createChallenge(context, nonce1, contrib, issig)) is true and contrib is this proof's ChallengeContribution(pk)", fn, AcceptTrue(0),
					&MustPass{Match: func(a Atom) bool {
						c, ok := callAtom(a, True, kProofDVWC)
						args := []ssa.Value(nil)
						if ok {
							args = callArgs(c)
						}
						if !ok || len(args) != 3 {
							return false
						}
						if desc(args[0]) != "<gabi.ProofD>" || desc(args[1]) != "<gabikeys.PublicKey>" {
							return false
						}
						ch, ok := args[2].(*ssa.Call)
						if !ok || !calleeIs(ch, "gabi.createChallenge") {
							return false
						}
						ar := callArgs(ch)
						return desc(ar[0]) == "arg#2" && desc(ar[1]) == "arg#3" && desc(ar[3]) == "arg#4" &&
							desc(ar[2]) == "call:"+kProofDCC+"(<gabi.ProofD>,<gabikeys.PublicKey>)#0"
					}})
			}},
		Rule{ID: "C01.c", Explain: "every element of ProofD.AResponses is range-checked on every accepting path: a loop over the map whose every iteration rejects x<0 and x>=2^(LmCommit+1) (symbolic term comparison, bound must equal the specification).",
			Run: func(P *Program, R *Report) {
				parts := proofDParts(P, R, "C01.c")
				elem := is("<gabi.ProofD>.AResponses[*]")
				for _, side := range []struct {
					name string
					m    func(g Guard) bool
					what string
				}{
					{"lower", func(g Guard) bool { t, ok := g.inclusiveLower(); return ok && t.equal(tconst(0)) }, "x >= 0"},
					{"upper", func(g Guard) bool { return guardUpperIs(g, pow2("LmCommit+1")) }, "x < 2^(LmCommit+1)"},
				} {
					side := side
					fa := &ForAll{P: P, Spec: ForAllSpec{
						Coll: is("<gabi.ProofD>.AResponses"),
						Body: func(fn *ssa.Function, l *Loop) *MustPass {
							return &MustPass{Match: func(a Atom) bool {
								g, ok := P.guardOf(a)
								return ok && (g.Kind == "big" || g.Kind == "bitlen") && elem(g.Subject) && side.m(g)
							}}
						}}}
					var ok bool
					var details []string
					for _, p := range parts {
						if p.fn == nil {
							continue
						}
						r := fa.OnAccept(p.fn, p.acc)
						if r.Holds && r.NAcc > 0 {
							ok = true
							break
						}
						details = append(details, r.Path)
					}
					for _, s := range fa.Seen() {
						R.seen(s)
					}
					o := R.decide("C01.c", "gabi.ProofD.AResponses[*]:"+side.name, "accept => for every hidden-attribute response "+side.what+" was tested (reject otherwise)", ok, strings.Join(details, "\n"), "")
					o.Analysed = fa.Seen()
				}
			}},
		Rule{ID: "C01.d", Explain: "EResponse rejected iff <0 and iff >= 2^(LeCommit+1) on every accepting path (symbolic bound equality).",
			Run: func(P *Program, R *Report) {
				guardRangeObl(P, R, "C01.d", "gabi.ProofD.EResponse", "EResponse", is("<gabi.ProofD>.EResponse"), tconst(0), pow2("LeCommit+1"), proofDParts(P, R, "C01.d"))
			}},
		Rule{ID: "C01.e", Explain: "ChallengeContribution's result is data-dependent (interprocedural backward closure) on A and on a reconstructed Z that depends on pk.Z, pk.S, pk.N, pk.R[i] for keys of both maps, A, C, EResponse, VResponse, every disclosed value, every hidden response and Params.Le. A dropped factor is a missing dependence.",
			Run: func(P *Program, R *Report) {
				fn := mustFunc(P, R, "C01.e", kProofDCC)
				if fn == nil {
					return
				}
				roots := nonErrorReturnValues(fn, 0, 1)
				reqs := []depReq{
					{"A", is("<gabi.ProofD>.A"), "randomised signature element"},
					{"C", is("<gabi.ProofD>.C"), "challenge exponent of the known part"},
					{"EResponse", is("<gabi.ProofD>.EResponse"), "exponent of A"},
					{"VResponse", is("<gabi.ProofD>.VResponse"), "exponent of S"},
					{"ADisclosed[*]", is("<gabi.ProofD>.ADisclosed[*]"), "every disclosed value"},
					{"AResponses[*]", is("<gabi.ProofD>.AResponses[*]"), "every hidden response"},
					{"pk.Z", is("<gabikeys.PublicKey>.Z"), "public key Z"},
					{"pk.S", is("<gabikeys.PublicKey>.S"), "public key S"},
					{"pk.N", is("<gabikeys.PublicKey>.N"), "modulus"},
					{"pk.R[disclosed key]", is("<gabikeys.PublicKey>.R[rangekey(<gabi.ProofD>.ADisclosed)]"), "base of each disclosed index"},
					{"pk.R[hidden key]", is("<gabikeys.PublicKey>.R[rangekey(<gabi.ProofD>.AResponses)]"), "base of each hidden index"},
					{"Params.Le", matches(`^<gabikeys\.PublicKey>\.Params\.DerivedParameters\.Le$`), "2^(Le-1) offset of e"},
				}
				requireDeps(P, R, "C01.e", kProofDCC, fn, roots, 4, reqs)
				// element order: first two elements are A and the reconstructed Z
				R.decide("C01.e", kProofDCC+":roots", "ChallengeContribution has a non-error return carrying a slice", len(roots) > 0, "no non-error return found", P.Pos(fn.Pos()))
			}},
		Rule{ID: "C01.f", Explain: "oversized attributes are replaced by IntHashSha256(x.Bytes()) exactly when BitLen(x) > Lm, identically at every site that implements it (verifier: disclosed values; prover: hidden values; RepresentToBases: signing/verifying).",
			Run: func(P *Program, R *Report) { oversizedHashRule(P, R) }},
		Rule{ID: "C01.h", Explain: "aliasing discipline: verifying a proof does not change it or the key, so that every verification of the same proof object gives the same verdict - no function mutates in place a big.Int it reached through gabi.ProofD / gabikeys.PublicKey (math/big mutators write their receiver), except the tabled merge/refresh functions.",
			Run: func(P *Program, R *Report) { inPlaceDisciplineRule(P, R, "C01.h", "gabi.ProofD", "gabikeys.PublicKey") }},
		Rule{ID: "C01.g", Explain: "never both: accept of ProofD verification is control-dependent on a test that no index is a key of both ADisclosed and AResponses (loop over one map with a lookup in the other leading to rejection).",
			Run: func(P *Program, R *Report) {
				parts := proofDParts(P, R, "C01.g")
				ok, seen, details := disjointKeysCheck(P, parts)
				for _, s := range seen {
					R.seen(s)
				}
				o := R.decide("C01.g", "gabi.ProofD:ADisclosed∩AResponses=∅", "accept => no attribute index is both disclosed and hidden", ok, details, "")
				o.Analysed = seen
			}},
		Rule{ID: "C01.h", Explain: "what is disclosed is the attribute itself: in CreateProof an attribute value reaches ProofD.ADisclosed only as the raw attribute of that index (the obligations of C04.a on the ADisclosed sink, same rule): a disclosed entry that carries the hashed exponent verifies - the verifier hashes nothing below 2^Lm - and shows the relying party a value that is not the attribute.",
			Run: func(P *Program, R *Report) {
				sharedRule(P, R, "C04", "C04.a", "C01.h", func(c string) bool { return strings.Contains(c, "CreateProof") })
			}},
	)
}

// disjointKeysCheck: ForAll over one of the two maps; per iteration the path to the back edge must
// cross "the key is not present in the other map".
func disjointKeysCheck(P *Program, parts []fnAcc) (bool, []string, string) {
	var details []string
	seen := map[string]bool{}
	for _, pair := range [][2]string{{"ADisclosed", "AResponses"}, {"AResponses", "ADisclosed"}} {
		over, other := pair[0], pair[1]
		lookup := "<gabi.ProofD>." + other + "[rangekey(<gabi.ProofD>." + over + ")]"
		fa := &ForAll{P: P, Spec: ForAllSpec{
			Coll: is("<gabi.ProofD>." + over),
			Body: func(fn *ssa.Function, l *Loop) *MustPass {
				return &MustPass{Match: func(a Atom) bool {
					d := desc(a.V)
					if d == "has("+lookup+")" && a.Want == False {
						return true
					}
					if d == lookup && a.Want == Nil {
						return true
					}
					return false
				}}
			}}}
		for _, p := range parts {
			if p.fn == nil {
				continue
			}
			r := fa.OnAccept(p.fn, p.acc)
			for _, s := range fa.Seen() {
				seen[s] = true
			}
			if r.Holds && r.NAcc > 0 {
				return true, sortedKeys(seen), r.Path
			}
			if r.Path != "" {
				details = append(details, "over "+over+": "+r.Path)
			}
		}
	}
	return false, sortedKeys(seen), "no loop over one key set tests membership in the other with rejection; " + strings.Join(details, "\n")
}

// oversizedHashRule implements C01.f / C05.f.
func oversizedHashRule(P *Program, R *Report) {
	type site struct {
		fn    *ssa.Function
		call  *ssa.Call
		bound string
		subj  string
		ok    bool
		why   string
	}
	var sites []site
	for _, fn := range P.AllFuncs {
		for _, c := range callsIn(fn) {
			call, ok := c.(*ssa.Call)
			if !ok || !calleeIs(call, "common.IntHashSha256") {
				continue
			}
			// (a use of the function as plain "SHA-256 as integer" of an encoder's output is the challenge digest,
			// decided by C02.b/C15.a, not an attribute replacement)
			if ex, isEx := origin(callArgs(call)[0]).(*ssa.Extract); isEx && ex.Index == 0 {
				if m, isM := ex.Tuple.(*ssa.Call); isM && isCallTo(m, "encoding/asn1.Marshal") {
					continue
				}
			}
			R.seen(FuncKey(fn))
			s := site{fn: fn, call: call}
			// the hashed bytes must be x.Bytes()
			arg := origin(callArgs(call)[0])
			bc, isCall := arg.(*ssa.Call)
			if !isCall || bigMethod(bc) != "Bytes" {
				s.why = "hash input is not x.Bytes()"
				sites = append(sites, s)
				continue
			}
			x := callArgs(bc)[0]
			s.subj = desc(x)
			// controlling condition: BitLen(x) > bound on the path to the call
			for _, a := range controllingConds(call.Block()) {
				g, ok := parseGuard(normAtom(a), nil)
				if !ok || g.Kind != "bitlen" {
					continue
				}
				if siteOf(g.SubjV) != siteOf(x) && desc(g.SubjV) != desc(x) {
					continue
				}
				if g.Rel == ">" {
					s.ok = true
					s.bound = g.BoundA.String()
				} else if g.Rel == ">=" {
					s.ok = true
					s.bound = g.BoundA.add(affConst(-1)).String()
				}
			}
			if !s.ok && s.why == "" {
				s.why = "call is not control-dependent on BitLen(x) > bound for the hashed x"
			}
			sites = append(sites, s)
		}
	}
	R.decide("C01.f", "sites:count", "oversized-attribute hashing sites were found (verifier, prover, RepresentToBases - or the helper they share)", len(sites) >= 1,
		fmt.Sprintf("found %d sites", len(sites)), "")
	roles := map[string]bool{}
	for _, s := range sites {
		key := FuncKey(s.fn)
		what := "IntHashSha256 replaces x exactly when BitLen(x) > Lm"
		if !s.ok {
			R.bad("C01.f", key+":guard", what, s.why, P.Pos(s.call.Pos()))
			continue
		}
		// bound must be Lm of the key in use: symbol "Lm", or a parameter that every caller binds to Params.Lm
		good := s.bound == "Lm"
		detail := "bound=" + s.bound + " subject=" + s.subj
		if !good && matches(`^arg#\d+$`)(s.bound) {
			good, detail = callersPassLm(P, s.fn, s.bound)
		}
		R.decide("C01.f", key+":guard", what, good, detail, P.Pos(s.call.Pos()))
		// the role a site plays is read off the value it hashes; a site inside a shared helper (hash-if-oversized
		// extracted into one function) plays the roles of the values its callers hand it
		subjects := []string{s.subj}
		callerKeys := []string{key}
		if matches(`^arg#\d+`)(s.subj) {
			for _, g := range P.AllFuncs {
				for _, c := range callsTo(g, s.fn) {
					cc := c
					bindCall(cc, s.fn, func() {
						if bc, ok := origin(callArgs(s.call)[0]).(*ssa.Call); ok && bigMethod(bc) == "Bytes" {
							subjects = append(subjects, desc(callArgs(bc)[0]))
						} else if bc, ok := callArgs(s.call)[0].(*ssa.Call); ok && bigMethod(bc) == "Bytes" {
							subjects = append(subjects, desc(callArgs(bc)[0]))
						}
					})
					callerKeys = append(callerKeys, FuncKey(g))
				}
			}
		}
		for _, sd := range subjects {
			switch {
			case strings.Contains(sd, "<gabi.ProofD>.ADisclosed[*]"):
				roles["verifier-disclosed"] = true
			case strings.Contains(sd, "<gabi.DisclosureProofBuilder>.attributes["):
				roles["prover-hidden"] = true
			}
		}
		for _, ck := range callerKeys {
			if ck == "common.RepresentToBases" {
				roles["represent"] = true
			}
		}
	}
	for _, role := range []string{"verifier-disclosed", "prover-hidden", "represent"} {
		R.decide("C01.f", "role:"+role, "the "+role+" site hashes oversized values", roles[role], "no hashing site whose subject plays this role", "")
	}
}

func callersPassLm(P *Program, fn *ssa.Function, argDesc string) (bool, string) {
	return callersPassLmD(P, fn, argDesc, 0)
}

// callersPassLmD follows a bound that a caller itself received as a parameter up to that caller's callers.
func callersPassLmD(P *Program, fn *ssa.Function, argDesc string, depth int) (bool, string) {
	var idx int
	fmt.Sscanf(argDesc, "arg#%d", &idx)
	n := 0
	for _, g := range P.AllFuncs {
		for _, c := range callsIn(g) {
			if staticCallee(c) != fn {
				continue
			}
			n++
			if idx >= len(callArgs(c)) {
				return false, fmt.Sprintf("caller %s: no argument %d", FuncKey(g), idx)
			}
			a, ok := affineOf(callArgs(c)[idx])
			if ok && a.String() == "Lm" {
				continue
			}
			if d := desc(callArgs(c)[idx]); depth < 3 && matches(`^arg#\d+$`)(d) {
				if up, detail := callersPassLmD(P, g, d, depth+1); up {
					continue
				} else {
					return false, detail
				}
			}
			return false, fmt.Sprintf("caller %s passes %s as the length bound, want Params.Lm", FuncKey(g), desc(callArgs(c)[idx]))
		}
	}
	return n > 0, fmt.Sprintf("%d callers pass Params.Lm", n)
}

// guardUpperIs: the guard establishes x < upperExcl (as x.Cmp(t) with the equal term, or as a bit-length
// test |x| < 2^K with 2^K == upperExcl; the latter bounds only the magnitude, the sign is a separate obligation).
func guardUpperIs(g Guard, upperExcl Term) bool {
	switch g.Kind {
	case "big":
		t, ok := g.exclusiveUpper()
		return ok && t.equal(upperExcl)
	case "bitlen":
		k, ok := g.bitlenUpper()
		return ok && termPow2(k).norm().equal(upperExcl.norm())
	}
	return false
}

// derivedParametersRule: see C01.i.
func derivedParametersRule(P *Program, R *Report, rule string) {
	fn := mustFunc(P, R, rule, "gabikeys.MakeDerivedParameters")
	if fn == nil {
		return
	}
	want := map[string]string{
		"Le": "Lh + Lm + Lstatzk + 5", "LeCommit": "LePrime + Lh + Lstatzk", "LmCommit": "Lh + Lm + Lstatzk", "LRA": "Ln + Lstatzk",
		"LsCommit": "Lh + Lm + Lstatzk + 1", "Lv": "Lh + Lm + Ln + 2*Lstatzk + 4", "LvCommit": "2*Lh + Lm + Ln + 3*Lstatzk + 4",
		"LvPrime": "Ln + Lstatzk", "LvPrimeCommit": "Lh + Ln + 2*Lstatzk",
	}
	got := map[string]string{}
	forms := map[string]Affine{}
	allInstrs(fn, func(i ssa.Instruction) {
		st, ok := i.(*ssa.Store)
		if !ok {
			return
		}
		fa, ok := st.Addr.(*ssa.FieldAddr)
		if !ok || !strings.HasSuffix(typeShort(fa.X.Type()), "gabikeys.DerivedParameters") {
			return
		}
		a, okA := affineOf(st.Val)
		if !okA {
			got[faName(fa)] = "not a linear form"
			return
		}
		// symbols are the base parameter's fields: keep the field names
		b := Affine{C: a.C, S: map[string]int64{}}
		for k, v := range a.S {
			if j := strings.LastIndex(k, "."); j >= 0 {
				k = k[j+1:]
			}
			b.S[k] += v
		}
		forms[faName(fa)] = b
	})
	// a derived length computed from another derived length (LvCommit = Lv + ...): substitute
	for round := 0; round < 3; round++ {
		for f, a := range forms {
			b := Affine{C: a.C, S: map[string]int64{}}
			for k, v := range a.S {
				if sub, isDerived := forms[k]; isDerived && k != f && want[k] != "" {
					b = b.add(sub.scale(v))
				} else {
					b.S[k] += v
				}
			}
			forms[f] = b
		}
	}
	for f, a := range forms {
		got[f] = a.String()
	}
	for f, w := range want {
		R.decide(rule, "gabikeys.MakeDerivedParameters:"+f, f+" = "+w, got[f] == strings.ReplaceAll(w, " ", ""), "computed: "+got[f], P.Pos(fn.Pos()))
	}
}
