package main

import (
	"go/types"
	"go/constant"
	"fmt"
	"strings"

	"golang.org/x/tools/go/ssa"
)

const (
	kKSResponse = "gabi.KeyshareResponse"
	kKSHash     = "gabi.keyshareUserCommitmentsHash"
	kKSUserComm = "gabi.KeyshareUserCommitmentRequest"
	kKSUserResp = "gabi.KeyshareUserResponseRequest"
	kKSCommits  = "gabi.NewKeyshareCommitments"
	kBuildDist  = "gabi.(ProofBuilderList).BuildDistributedProofList"
)

func init() {
	register("C14",
		Rule{ID: "C14.k", Explain: "the shared secret-key randomizer fits every key: wherever the library draws the randomizer that is filed under \"secretkey\" (it is shared by all proofs of a session and, with a keyshare server, added to the server's), its length is LmCommit of the smallest supported key size (1024) - one bit more (LsCommit) or the length of whichever key comes first makes the joint response exceed the verifier's bound for some sessions.",
			Run: func(P *Program, R *Report) { secretKeyRandomizerRule(P, R, "C14.k") }},
		Rule{ID: "C14.a", Explain: "KeyshareResponse returns a ProofP only if every element with a KeyID names a known key and the constant-time comparison of sha256(cbor(the WHOLE second-message challenge input)) with the committed hash succeeded; the comparison dominates the computation of the response.",
			Run: func(P *Program, R *Report) { keyshareResponseGuards(P, R) }},
		Rule{ID: "C14.b", Explain: "the server's challenge is createChallenge(Context or 1, Nonce, contribs, IsSignatureSession) where contribs is, per element in order, Value, then Commitment (times R0^randomizer mod N exactly when the key participates), then all OtherCommitments.",
			Run: func(P *Program, R *Report) { keyshareChallengeInput(P, R) }},
		Rule{ID: "C14.c", Explain: "both sides hash the challenge input through one helper: sha256 over cbor.Marshal of the whole slice (structure, key ids and entry boundaries included), whole digest; the user's first message contains per builder (KeyID, c[0], c[1], c[2:]) of builder.Commit(randomizers) in builder order.",
			Run: func(P *Program, R *Report) { keyshareHashRule(P, R) }},
		Rule{ID: "C14.d", Explain: "responses as symbolic terms: UserResponse = randomizers[\"secretkey\"] + challenge*userSecret; the server's total = randomizer + challenge*secret + UserResponse with the server's own challenge in ProofP.C; MergeProofP (new protocol) installs C and the total response into the field that SecretKeyResponse() returns.",
			Run: func(P *Program, R *Report) { keyshareResponsesRule(P, R) }},
		Rule{ID: "C14.e", Explain: "NewKeyshareCommitments: the randomiser has LmCommit(2048) bits unless some key has a 1024-bit modulus, then LmCommit(1024) bits and the secret must have at most Lm(1024)-1 bits; one commitment R0^randomizer mod N (and P = R0^secret) per key.",
			Run: func(P *Program, R *Report) { keyshareCommitmentsRule(P, R) }},
		Rule{ID: "C14.g", Explain: "joint proofs complete: the keyshare functions (KeyshareResponse, the user-side request builders, NewKeyshareCommitments) and the verification call tree refuse only for the specified reasons.",
			Run: func(P *Program, R *Report) {
				treeRejectionsRule(P, R, "C14.g", "keyshare", "the keyshare call tree")
				treeRejectionsRule(P, R, "C14.g", "show", "the verification call tree")
			}},
		Rule{ID: "C14.i", Explain: "the exchange can be repeated on the same builders: no field of a proof builder that Commit (or the functions it calls) writes is read there before it was written in the same call - both sides would agree on a challenge over a commitment kept from an abandoned first attempt while the responses use the new randomisers.",
			Run: func(P *Program, R *Report) {
				noCrossCallStateRuleFor(P, R, "C14.i", map[string]bool{"gabi.DisclosureProofBuilder": true, "gabi.CredentialBuilder": true},
					[]string{"gabi.(*DisclosureProofBuilder).Commit", "gabi.(*CredentialBuilder).Commit"}, 1,
					map[string]string{"<gabi.NonRevocationProofBuilder>.commitments": "commit-once by design (C07.d consume-once typestate)"})
			}},
		Rule{ID: "C14.h", Explain: "aliasing discipline: keyshare messages are not modified in place - no function mutates in place a big.Int it reached through gabi.ProofP / gabi.ProofPCommitment / gabi.KeyshareCommitmentRequest / gabi.KeyshareResponseRequest (math/big mutators write their receiver), except the tabled merge/refresh functions.",
			Run: func(P *Program, R *Report) { inPlaceDisciplineRule(P, R, "C14.h", "gabi.ProofP", "gabi.ProofPCommitment", "gabi.KeyshareCommitmentRequest", "gabi.KeyshareResponseRequest") }},
		Rule{ID: "C14.f", Explain: "BuildDistributedProofList: a ProofP list of the wrong length is an error; every builder's proof is created with the given challenge and merged with its ProofP when one is present.",
			Run: func(P *Program, R *Report) { buildDistributedRule(P, R) }},
		Rule{ID: "C14.j", Explain: "no failure is dropped in the keyshare protocol functions and the proof-list builders they drive (keyshare.go, prooflist.go): a failed hash of the commitments, a missing key or a failed commitment ends the call (same rule as C08.g: the error a call returns has a use - a nil test or a return - before it is overwritten, shadowed or left behind).",
			Run: func(P *Program, R *Report) { errorResultsUsedRule(P, R, "C14.j", inFiles(P, "keyshare.go", "prooflist.go"), nil, 3) }},
	)
}

const ksReq = "<gabi.KeyshareResponseRequest[T]>"
const ksElem = ksReq + ".UserChallengeInput[#i]"

func keyshareResponseGuards(P *Program, R *Report) {
	rule := "C14.a"
	fn := mustFunc(P, R, rule, kKSResponse)
	if fn == nil {
		return
	}
	acc := AcceptNilErr(1)
	// every element with KeyID has a known key
	fa := &ForAll{P: P, Spec: ForAllSpec{Coll: is(ksReq + ".UserChallengeInput"), Body: func(f *ssa.Function, l *Loop) *MustPass {
		return &MustPass{Match: func(a Atom) bool {
			d := desc(a.V)
			if d == ksElem+".KeyID" && a.Want == Nil {
				return true // does not participate
			}
			return d == "arg#4["+ksElem+".KeyID]" && a.Want == NonNil
		}}
	}}}
	m := fa.OnAccept(fn, acc)
	R.decide(rule, kKSResponse+":known-keys", "response => every challenge-input element with a KeyID refers to a key the server knows", m.Holds, m.Path, P.Pos(fn.Pos()))
	var cmp *ssa.Call
	mp(P, R, rule, kKSResponse+":hash-compared", "response => ConstantTimeCompare(hash(second-message input), commRequest.HashedUserCommitments) == 1", fn, acc, &MustPass{Match: func(a Atom) bool {
		x, y, ok := parseEq(a)
		if !ok {
			return false
		}
		hx := "call:" + kKSHash + "(" + ksReq + ".UserChallengeInput)#0"
		hy := "<gabi.KeyshareCommitmentRequest>.HashedUserCommitments"
		if (desc(x) == hx && desc(y) == hy) || (desc(y) == hx && desc(x) == hy) {
			if bo, isB := a.V.(*ssa.BinOp); isB {
				if c, isC := stripConv(bo.X).(*ssa.Call); isC {
					cmp = c
				}
			}
			return true
		}
		return false
	}})
	if cmp != nil {
		R.decide(rule, kKSResponse+":constant-time", "the comparison is constant-time", calleeIs(cmp, "crypto/subtle.ConstantTimeCompare"), calleeName(cmp), P.Pos(cmp.Pos()))
	}
	// the response computation happens only after the comparison
	n := 0
	allInstrs(fn, func(i ssa.Instruction) {
		c, ok := i.(*ssa.Call)
		if !ok || bigMethod(c) != "Mul" {
			return
		}
		uses := false
		for _, a := range callArgs(c)[1:] {
			if desc(a) == "arg#0" {
				uses = true
			}
		}
		if !uses {
			return
		}
		n++
		r := (&MustPass{P: P, Match: func(a Atom) bool {
			x, y, ok := parseEq(a)
			return ok && (strings.HasPrefix(desc(x), "call:"+kKSHash) || strings.HasPrefix(desc(y), "call:"+kKSHash))
		}}).MustReach(fn, c)
		R.decide(rule, kKSResponse+":secret-used-after-check", "the server's secret enters a computation only after the hash comparison succeeded", r.Holds, r.Path, P.Pos(c.Pos()))
	})
	R.decide(rule, kKSResponse+":secret-uses", "the use of the secret was located", n == 1, fmt.Sprintf("%d multiplications with the secret", n), P.Pos(fn.Pos()))
}

func keyshareChallengeInput(P *Program, R *Report) {
	rule := "C14.b"
	fn := mustFunc(P, R, rule, kKSResponse)
	if fn == nil {
		return
	}
	var ch *ssa.Call
	for _, c := range callsIn(fn) {
		if isCallTo(c, "gabi.createChallenge") {
			ch = c.(*ssa.Call)
		}
	}
	if ch == nil {
		R.bad(rule, kKSResponse+":challenge", "the challenge is computed by createChallenge", "no call", P.Pos(fn.Pos()))
		return
	}
	a := callArgs(ch)
	ctxD := desc(a[0])
	R.decide(rule, kKSResponse+":roles", "createChallenge(Context, Nonce, contribs, IsSignatureSession) of the second message",
		(ctxD == ksReq+".Context" || ctxD == "phi("+ksReq+".Context|global:gabi.bigOne)") && desc(a[1]) == ksReq+".Nonce" && desc(a[3]) == ksReq+".IsSignatureSession", fmt.Sprintf("%s | %s | %s", desc(a[0]), desc(a[1]), desc(a[3])), P.Pos(ch.Pos()))
	// default context: stored only when nil, value the constant 1
	okCtx := false
	for _, s := range sinksOf(fn) {
		if s.target == ksReq+".Context" || strings.HasSuffix(s.target, ".Context") {
			st := s.ins.(*ssa.Store)
			one := false
			if u, ok := s.val.(*ssa.UnOp); ok {
				if g, ok := u.X.(*ssa.Global); ok {
					if k, ok := P.globalBigConst(g); ok && k == 1 {
						one = true
					}
				}
			}
			conds := controllingConds(st.Block())
			guarded := false
			if len(conds) > 0 {
				c := normAtom(conds[0])
				if bo, ok := c.V.(*ssa.BinOp); ok && strings.HasSuffix(desc(bo.X), ".Context") && isNilConst(bo.Y) && bo.Op.String() == "==" && c.Want == True {
					guarded = true
				}
			}
			okCtx = one && guarded
		}
	}
	// or: the context handed to createChallenge is a local that is the request's context, replaced by the
	// constant one on exactly the edge taken when that context is nil
	if phi, isPhi := a[0].(*ssa.Phi); isPhi && !okCtx && len(phi.Edges) == 2 {
		for k, e := range phi.Edges {
			other := phi.Edges[1-k]
			u, isLoad := e.(*ssa.UnOp)
			if !isLoad || desc(other) != ksReq+".Context" {
				continue
			}
			g, isG := u.X.(*ssa.Global)
			if !isG {
				continue
			}
			if c1, ok := P.globalBigConst(g); !ok || c1 != 1 {
				continue
			}
			// the edge from Preds[k] is taken only when Context == nil, the other only when it is not
			pred := phi.Block().Preds[k]
			nilSide := false
			for _, cnd := range append(controllingConds(pred), edgeCond(pred, phi.Block())...) {
				cnd = normAtom(cnd)
				if bo, ok := cnd.V.(*ssa.BinOp); ok && desc(bo.X) == ksReq+".Context" && isNilConst(bo.Y) {
					if (bo.Op.String() == "==" && cnd.Want == True) || (bo.Op.String() == "!=" && cnd.Want == False) {
						nilSide = true
					}
				}
			}
			otherPred := phi.Block().Preds[1-k]
			nonNilSide := false
			for _, cnd := range append(controllingConds(otherPred), edgeCond(otherPred, phi.Block())...) {
				cnd = normAtom(cnd)
				if bo, ok := cnd.V.(*ssa.BinOp); ok && desc(bo.X) == ksReq+".Context" && isNilConst(bo.Y) {
					if (bo.Op.String() == "!=" && cnd.Want == True) || (bo.Op.String() == "==" && cnd.Want == False) {
						nonNilSide = true
					}
				}
			}
			okCtx = nilSide && nonNilSide
		}
	}
	R.decide(rule, kKSResponse+":default-context", "a missing context defaults to 1 (and only then)", okCtx, "", P.Pos(fn.Pos()))
	// contribs: phi over two append chains
	// (possibly assembled by a helper, which is then examined with its parameters bound to the call's arguments)
	phi, ok := origin(a[2]).(*ssa.Phi)
	if !ok {
		R.und(rule, kKSResponse+":contribs", "contribs is accumulated per element", "not a loop-carried slice: "+desc(a[2]), P.Pos(ch.Pos()))
		return
	}
	if !bindPath(fn, phi.Parent(), 2, func() { keyshareContribsShape(P, R, rule, phi.Parent(), phi, ch) }) {
		R.und(rule, kKSResponse+":contribs", "contribs is accumulated per element", "assembled in "+FuncKey(phi.Parent())+", which is not reached by static calls", P.Pos(ch.Pos()))
	}
}

// keyIDSide: which form an (already normalised) condition on the element's KeyID selects.
func keyIDSide(c Atom) string {
	isNil := false
	switch desc(c.V) {
	case "(" + ksElem + ".KeyID==nil)", "(nil==" + ksElem + ".KeyID)":
		isNil = c.Want == True
	case "(" + ksElem + ".KeyID!=nil)", "(nil!=" + ksElem + ".KeyID)":
		isNil = c.Want == False
	default:
		return ""
	}
	if isNil {
		return "no-key"
	}
	return "key"
}

func middlePhi(tail []SeqElem) (*ssa.Phi, bool) {
	if len(tail) != 3 || tail[1].V == nil {
		return nil, false
	}
	p, ok := tail[1].V.(*ssa.Phi)
	return p, ok
}

func keyshareContribsShape(P *Program, R *Report, rule string, fn *ssa.Function, phi *ssa.Phi, ch *ssa.Call) {
	be := P.bigEval(fn)
	nChains := 0
	merged := false
	for _, e := range phi.Edges {
		if _, isMake := e.(*ssa.MakeSlice); isMake {
			continue
		}
		seq, ok := seqD(e, 0, map[ssa.Value]bool{phi: true})
		if !ok || len(seq) < 1 || seq[0].D != "@self" {
			R.und(rule, kKSResponse+":contribs-chain", "per-element contribution evaluates", "unrecognised append chain", P.Pos(ch.Pos()))
			continue
		}
		nChains++
		tail := seq[1:]
		// which branch
		app, _ := e.(*ssa.Call)
		branch := "?"
		if app != nil {
			for _, c := range controllingConds(app.Block()) {
				c = normAtom(c)
				if b := keyIDSide(c); b != "" {
					branch = b
				}
			}
		}
		got := seqString(tail)
		switch branch {
		case "no-key":
			want := "[" + ksElem + ".Value, " + ksElem + ".Commitment, " + ksElem + ".OtherCommitments...]"
			R.decide(rule, kKSResponse+":contribs[no key]", "element without KeyID contributes Value, Commitment, OtherCommitments...", got == want, "got "+got, P.Pos(ch.Pos()))
		case "key":
			okShape := len(tail) == 3 && tail[0].D == ksElem+".Value" && tail[2].Kind == "spread" && tail[2].D == ksElem+".OtherCommitments"
			// the middle element's term
			t := termTop()
			if len(tail) == 3 && tail[1].V != nil {
				for _, r := range referrersOf(tail[1].V) {
					if st, isSt := r.(*ssa.Store); isSt && st.Val == tail[1].V {
						if tt, has := be.Use[st][tail[1].V]; has {
							t = tt
						}
					}
				}
			}
			pk := "arg#4[" + ksElem + ".KeyID]"
			want := termFn("Mod", tmul(tsym(ksElem+".Commitment"), termFn("Exp", tsym(pk+".R[0]"), tsym("arg#1"), tsym(pk+".N"))), tsym(pk+".N"))
			R.decide(rule, kKSResponse+":contribs[key]", "element with KeyID contributes Value, Commitment * R0^randomizer mod N of that key, OtherCommitments...", okShape && t.equal(want), "got "+got+" middle="+t.String(), P.Pos(ch.Pos()))
		default:
			// one append for both forms, the middle element chosen by the same test:
			// commitment := data.Commitment; if data.KeyID != nil { commitment = <product> }; append(.., Value, commitment, Other...)
			if mphi, isPhi := middlePhi(tail); isPhi && len(mphi.Edges) == 2 && tail[0].D == ksElem+".Value" && tail[2].Kind == "spread" && tail[2].D == ksElem+".OtherCommitments" {
				merged = true
				for k, e := range mphi.Edges {
					pred := mphi.Block().Preds[k]
					side := "?"
					for _, c := range append(controllingConds(pred), edgeCond(pred, mphi.Block())...) {
						c = normAtom(c)
						if b := keyIDSide(c); b != "" {
							side = b
						}
					}
					switch side {
					case "no-key":
						R.decide(rule, kKSResponse+":contribs[no key]", "element without KeyID contributes Value, Commitment, OtherCommitments...", desc(e) == ksElem+".Commitment", "got "+desc(e), P.Pos(ch.Pos()))
					case "key":
						t := termTop()
						for _, ins := range pred.Instrs {
							if c, isC := ins.(*ssa.Call); isC && bigMethod(c) != "" && bigMutators[bigMethod(c)] && len(callArgs(c)) > 0 && siteOf(callArgs(c)[0]) == siteOf(e) {
								if rt, has := be.Ret[c]; has {
									t = rt
								}
							}
						}
						pk := "arg#4[" + ksElem + ".KeyID]"
						want := termFn("Mod", tmul(tsym(ksElem+".Commitment"), termFn("Exp", tsym(pk+".R[0]"), tsym("arg#1"), tsym(pk+".N"))), tsym(pk+".N"))
						R.decide(rule, kKSResponse+":contribs[key]", "element with KeyID contributes Value, Commitment * R0^randomizer mod N of that key, OtherCommitments...", t.equal(want), "got "+got+" middle="+t.String(), P.Pos(ch.Pos()))
					default:
						R.und(rule, kKSResponse+":contribs[?]", "contribution branch is decided by KeyID == nil", "controlling condition of the middle element not found", P.Pos(ch.Pos()))
					}
				}
				break
			}
			R.und(rule, kKSResponse+":contribs[?]", "contribution branch is decided by KeyID == nil", "controlling condition not found", P.Pos(ch.Pos()))
		}
	}
	R.decide(rule, kKSResponse+":contribs-branches", "two per-element forms (key participates / does not)", nChains == 2 || (merged && nChains == 1), fmt.Sprintf("%d", nChains), P.Pos(ch.Pos()))
	// index-ordered loop over the whole input
	l := loopOver(fn, is(ksReq+".UserChallengeInput"))
	loops := rangeLoopsOver(fn, is(ksReq+".UserChallengeInput"))
	R.decide(rule, kKSResponse+":in-order", "contributions are accumulated in an index-ordered loop over the whole challenge input", l != nil || len(loops) == 2, fmt.Sprintf("%d loops", len(loops)), P.Pos(fn.Pos()))
}

func keyshareHashRule(P *Program, R *Report) {
	rule := "C14.c"
	if fn := mustFunc(P, R, rule, kKSHash); fn != nil {
		var marshal, sum *ssa.Call
		for _, c := range callsIn(fn) {
			switch calleeName(c) {
			case "github.com/fxamacker/cbor.Marshal":
				marshal = c.(*ssa.Call)
			case "crypto/sha256.Sum256":
				sum = c.(*ssa.Call)
			}
		}
		R.decide(rule, kKSHash+":whole-structure", "the hashed bytes are cbor.Marshal of the whole input slice (key ids and entry boundaries are part of the encoding)", marshal != nil && desc(callArgs(marshal)[0]) == "arg#0",
			func() string {
				if marshal == nil {
					return "no cbor.Marshal"
				}
				return "marshals " + desc(callArgs(marshal)[0])
			}(), P.Pos(fn.Pos()))
		R.decide(rule, kKSHash+":digest", "the digest is sha256 of exactly those bytes", sum != nil && marshal != nil && desc(callArgs(sum)[0]) == desc(marshal)+"#0", "", P.Pos(fn.Pos()))
		okRet := false
		for _, r := range nonErrorReturnValues(fn, 0, 1) {
			if sl, ok := r.(*ssa.Slice); ok && sl.Low == nil && sl.High == nil {
				if al, ok := sl.X.(*ssa.Alloc); ok {
					for _, rr := range referrersOf(al) {
						if st, ok := rr.(*ssa.Store); ok && st.Val == ssa.Value(sum) {
							okRet = true
						}
					}
				}
			}
		}
		R.decide(rule, kKSHash+":whole-digest", "the whole digest is returned", okRet, "", P.Pos(fn.Pos()))
		// both sides use the helper
		var users []string
		for _, g := range P.AllFuncs {
			for _, c := range callsIn(g) {
				if f := staticCallee(c); f != nil && FuncKey(f) == kKSHash {
					users = append(users, FuncKey(g))
				}
			}
		}
		R.decide(rule, kKSHash+":shared", "user and server both compute the commitment hash with this one helper", len(users) == 2 && strings.Join(users, ",") == kKSResponse+","+kKSUserComm, strings.Join(users, ","), "")
	}
	if fn := mustFunc(P, R, rule, kKSUserComm); fn != nil {
		// hashInput = Star({KeyID: keyIDs[pk id of builder], Value: copy c[0], Commitment: copy c[1], OtherCommitments: c[2:]})
		fs := litFieldStores(fn, "new:gabi.KeyshareUserChallengeInput[T]")
		be := P.bigEval(fn)
		commit := "call:invoke:gabi.ProofBuilder.Commit(arg#0[#i],arg#1)#0"
		tv := termAtStore(P, fn, fs["Value"])
		tc := termAtStore(P, fn, fs["Commitment"])
		_ = be
		R.decide(rule, kKSUserComm+":Value", "Value = c[0] of builder.Commit(randomizers)", tv.equal(tsym(commit+"[0]")), "got "+tv.String(), P.Pos(fn.Pos()))
		R.decide(rule, kKSUserComm+":Commitment", "Commitment = c[1]", tc.equal(tsym(commit+"[1]")), "got "+tc.String(), P.Pos(fn.Pos()))
		oc := ""
		if st := fs["OtherCommitments"]; st != nil {
			oc = strings.Join(sortedKeys(phiLeaves(st.Val)), "|")
		}
		R.decide(rule, kKSUserComm+":OtherCommitments", "OtherCommitments = c[2:] (when present)", (oc == commit+"[2:]|nil" || oc == commit+"[2:]"), "got "+oc, P.Pos(fn.Pos()))
		kid := ""
		if st := fs["KeyID"]; st != nil {
			kid = desc(st.Val)
		}
		okIss, okCnt := false, false
		// (the identifier may be assembled by a helper that is handed the builder's key: seen with its parameter bound)
		oldS := bindStructParams
		bindStructParams = true // the key obtained from builder.PublicKey() keeps that identity inside the helper
		deepSinks := sinksOfDeep(fn)
		bindStructParams = oldS
		for _, s := range deepSinks {
			if s.target == "new:gabi.publicKeyIdentifier.issuer" && s.valDesc == "call:invoke:gabi.ProofBuilder.PublicKey(arg#0[#i]).Issuer" {
				okIss = true
			}
			if s.target == "new:gabi.publicKeyIdentifier.counter" && s.valDesc == "call:invoke:gabi.ProofBuilder.PublicKey(arg#0[#i]).Counter" {
				okCnt = true
			}
		}
		R.decide(rule, kKSUserComm+":KeyID", "KeyID is looked up by (issuer, counter) of the builder's own public key", strings.HasPrefix(kid, "makemap[") && okIss && okCnt, "got "+kid, P.Pos(fn.Pos()))
		// the hashed slice is the accumulated one, in builder order, and is what is returned as second-message input
		var hc *ssa.Call
		for _, c := range callsIn(fn) {
			if f := staticCallee(c); f != nil && FuncKey(f) == kKSHash {
				hc = c.(*ssa.Call)
			}
		}
		ok := false
		if hc != nil {
			seq, sok := seqOf(callArgs(hc)[0])
			ok = sok && len(seq) == 1 && seq[0].Kind == "star" && len(seq[0].Sub) == 1
			for _, r := range returnsOf(fn) {
				if retCount(r) == 3 && !isNilConst(retValue(r, 1)) && retValue(r, 1) != callArgs(hc)[0] {
					ok = false
				}
			}
		}
		note := ""
		if hc != nil {
			if seq, sok := seqOf(callArgs(hc)[0]); sok {
				note = seqString(seq)
			} else {
				note = "slice construction not recognised: " + desc(callArgs(hc)[0])
			}
		}
		R.decide(rule, kKSUserComm+":hashed-is-returned", "one entry per builder in builder order; the slice that was hashed is the one returned for the second message", ok, note, P.Pos(fn.Pos()))
	}
	// the user's challenge uses the same Commit values through ChallengeWithRandomizers (C02.f roles)
	if fn := mustFunc(P, R, rule, kKSUserResp); fn != nil {
		ok := false
		for _, c := range callsIn(fn) {
			if isCallTo(c, "gabi.(ProofBuilderList).ChallengeWithRandomizers") {
				a := callArgs(c)
				ok = desc(a[0]) == "arg#0" && desc(a[1]) == "arg#3" && desc(a[2]) == "arg#4" && desc(a[3]) == "arg#1" && desc(a[4]) == "arg#5"
			}
		}
		R.decide(rule, kKSUserResp+":challenge", "the user's challenge is ChallengeWithRandomizers(context, nonce, the same randomizers, signature flag) over the same builders", ok, "", P.Pos(fn.Pos()))
		fs := litFieldStores(fn, "new:gabi.KeyshareResponseRequest[T]")
		g := map[string]string{}
		for f, st := range fs {
			g[f] = desc(st.Val)
		}
		R.decide(rule, kKSUserResp+":message", "the second message carries the nonce, the flag and the first message's challenge input unchanged",
			g["Nonce"] == "arg#4" && g["IsSignatureSession"] == "arg#5" && g["UserChallengeInput"] == "arg#2", fmt.Sprint(g), P.Pos(fn.Pos()))
		// the server hashes responseRequest.Context (1 when absent): the user must send the context it hashed itself
		R.decide(rule, kKSUserResp+":context", "the second message carries the context the user's own challenge was computed with", g["Context"] == "arg#3", "Context = "+g["Context"]+" (the user's challenge uses arg#3)", P.Pos(fn.Pos()))
	}
}

func keyshareResponsesRule(P *Program, R *Report) {
	rule := "C14.d"
	if fn := mustFunc(P, R, rule, kKSUserResp); fn != nil {
		fs := litFieldStores(fn, "new:gabi.KeyshareResponseRequest[T]")
		t := finalTermOfStored(P, fn, fs["UserResponse"])
		ch := "call:gabi.(ProofBuilderList).ChallengeWithRandomizers(arg#0,arg#3,arg#4,arg#1,arg#5)#0"
		ok := false
		if !t.Top && len(t.M) == 2 {
			rest := t.add(tsym(`arg#1["secretkey"]`), -1)
			if len(rest.M) == 1 {
				for _, m := range rest.M {
					if m.coef.Cmp(bigOneM) == 0 && m.syms[ch] == 1 && len(m.syms) == 2 {
						for s := range m.syms {
							if s != ch && (strings.Contains(s, ".secret") || strings.Contains(s, ".attributes[0]")) {
								ok = true
							}
						}
					}
				}
			}
		}
		R.decide(rule, kKSUserResp+":UserResponse", "UserResponse = randomizers[\"secretkey\"] + challenge * user secret (builder's secret / attribute 0)", ok, "got "+t.String(), P.Pos(fn.Pos()))
	}
	if fn := mustFunc(P, R, rule, kKSResponse); fn != nil {
		fs := litFieldStores(fn, "new:gabi.ProofP")
		var ch string
		for _, c := range callsIn(fn) {
			if isCallTo(c, "gabi.createChallenge") {
				ch = desc(c.(*ssa.Call))
			}
		}
		t := termAtStore(P, fn, fs["SResponse"])
		want := tsum(tsym("arg#1"), tmul(tsym(ch), tsym("arg#0")), tsym(ksReq+".UserResponse"))
		R.decide(rule, kKSResponse+":total", "SResponse = randomizer + challenge*secret + UserResponse", t.equal(want), "got "+t.String(), P.Pos(fn.Pos()))
		c := ""
		if st := fs["C"]; st != nil {
			c = desc(st.Val)
		}
		R.decide(rule, kKSResponse+":C", "ProofP.C is the server's own challenge", c == ch && ch != "", "got "+c, P.Pos(fn.Pos()))
		_, hasP := fs["P"]
		R.decide(rule, kKSResponse+":new-protocol", "the new protocol's ProofP carries no P", !hasP, "", P.Pos(fn.Pos()))
	}
	// MergeProofP (new protocol branch: P == nil): C and the response field of C03.b are overwritten with the server's values
	for _, impl := range []struct{ key, typ, field string }{
		{"gabi.(*ProofU).MergeProofP", "<gabi.ProofU>", "<gabi.ProofU>.SResponse"},
		{"gabi.(*ProofD).MergeProofP", "<gabi.ProofD>", "<gabi.ProofD>.AResponses[0]"},
	} {
		fn := mustFunc(P, R, rule, impl.key)
		if fn == nil {
			continue
		}
		okC, okS := false, false
		allInstrs(fn, func(i ssa.Instruction) {
			c, ok := i.(*ssa.Call)
			if !ok || bigMethod(c) != "Set" {
				return
			}
			newProto := false
			for _, a := range controllingConds(c.Block()) {
				if t, w := condText(a); t == "(<gabi.ProofP>.P==nil)" && w == True {
					newProto = true
				}
			}
			if !newProto {
				return
			}
			if desc(callArgs(c)[0]) == impl.typ+".C" && desc(callArgs(c)[1]) == "<gabi.ProofP>.C" {
				okC = true
			}
			if desc(callArgs(c)[0]) == impl.field && desc(callArgs(c)[1]) == "<gabi.ProofP>.SResponse" {
				okS = true
			}
		})
		R.decide(rule, impl.key+":installs", "new protocol: the proof's C and "+impl.field+" are set to the server's C and total response", okC && okS, fmt.Sprintf("C=%v response=%v", okC, okS), P.Pos(fn.Pos()))
	}
}

func keyshareCommitmentsRule(P *Program, R *Report) {
	rule := "C14.e"
	fn := mustFunc(P, R, rule, kKSCommits)
	if fn == nil {
		return
	}
	var gen *ssa.Call
	for _, c := range callsIn(fn) {
		if isCallTo(c, "common.RandomBigInt") {
			gen = c.(*ssa.Call)
		}
	}
	if gen == nil {
		R.bad(rule, kKSCommits+":randomizer", "the randomiser is drawn with RandomBigInt", "no call", P.Pos(fn.Pos()))
		return
	}
	lv := phiLeaves(callArgs(gen)[0])
	var ls []string
	for d := range lv {
		ls = append(ls, d)
	}
	want := map[string]bool{}
	for _, k := range []string{"2048", "1024"} {
		want["global:gabikeys.DefaultSystemParameters["+k+"].DerivedParameters.LmCommit"] = true
	}
	ok := len(lv) == 2
	for d := range lv {
		if !want[d] {
			ok = false
		}
	}
	R.decide(rule, kKSCommits+":lengths", "the randomiser length is LmCommit of the 2048-bit or of the 1024-bit parameters", ok, strings.Join(ls, " | "), P.Pos(gen.Pos()))
	// the 1024 value is assigned only under "this key has a 1024-bit modulus"; the 2048 value is only the
	// initial value (never re-assigned inside the loop over the keys)
	okSel := true
	var selNotes []string
	seenPhi := map[*ssa.Phi]bool{}
	var walk func(v ssa.Value)
	walk = func(v ssa.Value) {
		phi, isPhi := v.(*ssa.Phi)
		if !isPhi || seenPhi[phi] {
			return
		}
		seenPhi[phi] = true
		for i, e := range phi.Edges {
			if _, nested := e.(*ssa.Phi); nested {
				walk(e)
				continue
			}
			pb := phi.Block().Preds[i]
			d := desc(e)
			switch {
			case strings.Contains(d, "[1024]"):
				guarded := false
				is1024 := func(a Atom) bool {
					d, w := condText(a)
					if w != True {
						return false
					}
					if d == "(call:big.(*Int).BitLen(arg#1[#i].N)==1024)" || d == "(call:big.(*Int).BitLen(arg#1[*].N)==1024)" {
						return true
					}
					// inside the predicate handed to a search over the keys, the element is the predicate's parameter
					return a.Fn != nil && a.Fn.Parent() != nil && d == "(call:big.(*Int).BitLen(<gabikeys.PublicKey>.N)==1024)"
				}
				for _, a := range controllingConds(pb) {
					if is1024(a) {
						guarded = true
					}
					// `if slices.ContainsFunc(keys, func(k) bool { return k.N.BitLen() == 1024 })`
					q := &MustPass{P: P, Match: is1024}
					q.init()
					if q.existsImplies(a, 0) {
						guarded = true
					}
				}
				if !guarded {
					okSel = false
					selNotes = append(selNotes, "1024-bit length assigned without a 1024-bit key test at "+P.Pos(e.Pos()))
				}
			case strings.Contains(d, "[2048]"):
				defBlock := pb
				if ins, ok := e.(ssa.Instruction); ok {
					defBlock = ins.Block()
				}
				if innermostLoopOf(defBlock) != nil {
					okSel = false
					selNotes = append(selNotes, "2048-bit length (re)assigned inside the loop over the keys")
				}
			}
		}
	}
	walk(callArgs(gen)[0])
	if len(seenPhi) == 0 {
		okSel = false
	}
	R.decide(rule, kKSCommits+":selection", "the shorter length is selected exactly when a key with a 1024-bit modulus is present (2048 is only the default)", okSel, strings.Join(selNotes, "; "), P.Pos(gen.Pos()))
	// secret size guard on that path
	okGuard := false
	allInstrs(fn, func(i ssa.Instruction) {
		iff, ok := i.(*ssa.If)
		if !ok {
			return
		}
		g, ok := parseGuard(Atom{Fn: fn, V: iff.Cond, Want: True}, nil)
		if ok && g.Kind == "bitlen" && g.Subject == "arg#0" && g.Rel == ">" && g.BoundA.String() == "Lm@1024-1" {
			// the true branch returns an error
			if ret, isRet := iff.Block().Succs[0].Instrs[len(iff.Block().Succs[0].Instrs)-1].(*ssa.Return); isRet {
				if _, isErr := retValue(ret, 2).(*ssa.MakeInterface); isErr {
					okGuard = true
				}
			}
		}
	})
	R.decide(rule, kKSCommits+":secret-size", "with a 1024-bit key a secret longer than Lm(1024)-1 bits is refused", okGuard, "", P.Pos(fn.Pos()))
	// per key commitments
	fs := litFieldStores(fn, "new:gabi.ProofPCommitment")
	tp := termAtStore(P, fn, fs["Pcommit"])
	tP := termAtStore(P, fn, fs["P"])
	// (the commitment may be made by a new unexported helper that is called once per key: its literal is read with the
	// helper's parameters bound to the call's arguments)
	var maker *ssa.Function
	if fs["Pcommit"] == nil {
		for _, ci := range callsIn(fn) {
			g := staticCallee(ci)
			if g == nil || g.Blocks == nil || !newHelper(g) || g.Parent() != nil {
				continue
			}
			gfs := litFieldStores(g, "new:gabi.ProofPCommitment")
			if gfs["Pcommit"] == nil || gfs["P"] == nil {
				continue
			}
			// the helper works on the key of this iteration
			keyIsOwn := false
			for _, a := range callArgs(ci) {
				if desc(a) == "arg#1[#i]" {
					keyIsOwn = true
				}
			}
			if !keyIsOwn {
				continue
			}
			maker = g
			bindCall(ci, g, func() {
				tp = termAtStore(P, g, gfs["Pcommit"])
				tP = termAtStore(P, g, gfs["P"])
			})
		}
	}
	k := "arg#1[#i]"
	if maker != nil {
		k = pkD // (inside the helper the key it was handed is named by its type)
	}
	r := tsym(desc(gen) + "#0")
	// one commitment object per key: what is appended for a key is made in that key's iteration (an object looked up by
	// issuer name and shared between keys carries another key's commitment)
	okPerKey, nApp := true, 0
	allInstrs(fn, func(i ssa.Instruction) {
		c, ok := i.(*ssa.Call)
		if !ok || !isCallTo(c, "builtin:append") {
			return
		}
		t, okT := seqTail(callArgs(c)[1], 0, map[ssa.Value]bool{})
		if !okT || len(t) != 1 || t[0].V == nil || !strings.Contains(typeStr(t[0].V.Type()), "ProofPCommitment") {
			return
		}
		nApp++
		al, isAl := t[0].V.(*ssa.Alloc)
		l := innermostLoopOf(c.Block())
		if mk, isCall := t[0].V.(*ssa.Call); isCall && maker != nil && staticCallee(mk) == maker && l != nil && l.Body[mk.Block()] {
			// made by the helper, called in this iteration: every return of the helper is an object it made itself
			fresh := true
			for _, r := range returnsOf(maker) {
				if a2, isA := retValue(r, 0).(*ssa.Alloc); !isA || !a2.Heap {
					fresh = false
				}
			}
			if !fresh {
				okPerKey = false
			}
			return
		}
		if !isAl || l == nil || !l.Body[al.Block()] {
			okPerKey = false
		}
	})
	R.decide(rule, kKSCommits+":per-key", "every key gets a commitment object of its own, made in that key's iteration", okPerKey && nApp >= 1, fmt.Sprintf("%d appends", nApp), P.Pos(fn.Pos()))
	R.decide(rule, kKSCommits+":Pcommit", "Pcommit = R0^randomizer mod N of each key", tp.equal(termFn("Exp", tsym(k+".R[0]"), r, tsym(k+".N"))), "got "+tp.String(), P.Pos(fn.Pos()))
	R.decide(rule, kKSCommits+":P", "P = R0^secret mod N of each key", tP.equal(termFn("Exp", tsym(k+".R[0]"), tsym("arg#0"), tsym(k+".N"))), "got "+tP.String(), P.Pos(fn.Pos()))
	okRet := false
	for _, ret := range returnsOf(fn) {
		if desc(retValue(ret, 0)) == desc(gen)+"#0" {
			okRet = true
		}
	}
	R.decide(rule, kKSCommits+":returns-randomizer", "the randomiser returned to the caller is the one committed to", okRet, "", P.Pos(fn.Pos()))
}

func buildDistributedRule(P *Program, R *Report) {
	rule := "C14.f"
	fn := mustFunc(P, R, rule, kBuildDist)
	if fn == nil {
		return
	}
	mp(P, R, rule, kBuildDist+":length", "a list is returned only if no ProofP list was given or it has one entry per builder", fn, AcceptNilErr(1), &MustPass{Exempt: func(a Atom) bool { return desc(a.V) == "arg#2" && a.Want == Nil },
		Match: func(a Atom) bool {
			g, ok := parseGuard(a, nil)
			return ok && g.Kind == "int" && g.Rel == "==" && ((g.Subject == "len(arg#0)" && g.BoundA.String() == "len(arg#2)") || (g.Subject == "len(arg#2)" && g.BoundA.String() == "len(arg#0)"))
		}})
	fa := &ForAll{P: P, Spec: ForAllSpec{Coll: is("arg#0"), Body: func(f *ssa.Function, l *Loop) *MustPass {
		return &MustPass{Instr: func(_ *ssa.Function, i ssa.Instruction) bool {
			const created = "call:invoke:gabi.ProofBuilder.CreateProof(arg#0[#i],arg#1)"
			if st, ok := i.(*ssa.Store); ok {
				return desc(st.Addr) == "makeslice[#i]" && desc(st.Val) == created
			}
			// or appended, one per iteration of the full walk, to a list that starts empty (position i all the same)
			if c, ok := i.(*ssa.Call); ok && isCallTo(c, "builtin:append") {
				if t, okT := seqTail(callArgs(c)[1], 0, map[ssa.Value]bool{}); okT && len(t) == 1 && t[0].V != nil && desc(t[0].V) == created {
					return startsEmpty(callArgs(c)[0])
				}
			}
			return false
		}}
	}}}
	m := fa.inFn(fn, AcceptNilErr(1))
	R.decide(rule, kBuildDist+":every-builder", "every builder's proof is created with the given challenge and stored at its position", m.holds, m.detail, P.Pos(fn.Pos()))
	fa2 := &ForAll{P: P, Spec: ForAllSpec{Coll: is("arg#0"), Body: func(f *ssa.Function, l *Loop) *MustPass {
		return &MustPass{Match: func(a Atom) bool {
				d := desc(a.V)
				return (d == "arg#2" && a.Want == Nil) || (d == "arg#2[#i]" && a.Want == Nil)
			},
			Instr: func(_ *ssa.Function, i ssa.Instruction) bool {
				c, ok := i.(*ssa.Call)
				if !ok || !c.Call.IsInvoke() || c.Call.Method.Name() != "MergeProofP" {
					return false
				}
				// the proof at position i: read back from the list, or the very value that this iteration files there
				recvOK := desc(c.Call.Value) == "makeslice[#i]"
				if !recvOK {
					for _, r := range referrersOf(c.Call.Value) {
						if st, isSt := r.(*ssa.Store); isSt && st.Val == c.Call.Value && desc(st.Addr) == "makeslice[#i]" {
							recvOK = true
						}
						// ... or appends to the list as this iteration's element
						if ap, isAp := r.(*ssa.Call); isAp && isCallTo(ap, "builtin:append") {
							recvOK = true
						}
						if sl, isSl := r.(*ssa.Store); isSl && sl.Val == c.Call.Value {
							if ia, isIA := sl.Addr.(*ssa.IndexAddr); isIA {
								if al, isAl := ia.X.(*ssa.Alloc); isAl && al.Comment == "varargs" {
									recvOK = true // the variadic argument list of that append
								}
							}
						}
					}
				}
				return recvOK && desc(callArgs(c)[0]) == "arg#2[#i]" && desc(callArgs(c)[1]) == "call:invoke:gabi.ProofBuilder.PublicKey(arg#0[#i])"
			}}
	}}}
	m2 := fa2.inFn(fn, AcceptNilErr(1))
	R.decide(rule, kBuildDist+":merged", "every proof with a ProofP is merged with it (and the builder's own public key)", m2.holds, m2.detail, P.Pos(fn.Pos()))
}

// edgeCond: the branch condition that holds on the edge from -> to, when from ends in an If.
func edgeCond(from, to *ssa.BasicBlock) []Atom {
	iff, ok := from.Instrs[len(from.Instrs)-1].(*ssa.If)
	if !ok || from.Succs[0] == from.Succs[1] {
		return nil
	}
	if from.Succs[0] == to {
		return []Atom{{Fn: from.Parent(), V: iff.Cond, Want: True}}
	}
	if from.Succs[1] == to {
		return []Atom{{Fn: from.Parent(), V: iff.Cond, Want: False}}
	}
	return nil
}

// startsEmpty: the slice value is, outside the loop it is appended to in, an empty list (make with length 0, nil, or
// an empty literal) - followed through the loop's phi.
func startsEmpty(v ssa.Value) bool {
	seen := map[ssa.Value]bool{}
	var walk func(v ssa.Value) bool
	walk = func(v ssa.Value) bool {
		if seen[v] {
			return true
		}
		seen[v] = true
		switch x := v.(type) {
		case *ssa.Phi:
			for _, e := range x.Edges {
				if !walk(e) {
					return false
				}
			}
			return true
		case *ssa.Call:
			if isCallTo(x, "builtin:append") {
				return walk(callArgs(x)[0])
			}
			return false
		case *ssa.MakeSlice:
			n, ok := constInt(x.Len)
			return ok && n == 0
		case *ssa.Const:
			return x.Value == nil
		case *ssa.Slice:
			if al, ok := x.X.(*ssa.Alloc); ok {
				return strings.HasPrefix(typeStr(al.Type()), "*[0]")
			}
		}
		return false
	}
	return walk(v)
}

// secretKeyRandomizerRule: see C14.k.
func secretKeyRandomizerRule(P *Program, R *Report, rule string) {
	n := 0
	for _, fn := range P.AllFuncs {
		if fn.Blocks == nil || !inModuleFn(fn) {
			continue
		}
		allInstrs(fn, func(i ssa.Instruction) {
			mu, ok := i.(*ssa.MapUpdate)
			if !ok {
				return
			}
			k, isC := mu.Key.(*ssa.Const)
			if !isC || k.Value == nil || k.Value.Kind() != constant.String || constant.StringVal(k.Value) != "secretkey" {
				return
			}
			c, _ := callAndResult(mu.Value)
			if c == nil || !(isCallTo(c, "common.RandomBigInt") || isCallTo(c, "common.FastRandomBigInt")) {
				return
			}
			// the randomizers of a session: the map is handed to the caller (a single proof's own map, as in
			// CredentialBuilder.proveCommitment, is sized by that proof's key)
			handedOut := false
			for _, r := range returnsOf(fn) {
				for k := 0; k < retCount(r); k++ {
					rv := retValue(r, k)
					if rv == mu.Map {
						handedOut = true
					}
					if ph, isPhi := rv.(*ssa.Phi); isPhi {
						for _, e := range ph.Edges {
							if e == mu.Map {
								handedOut = true
							}
						}
					}
				}
			}
			if !handedOut {
				return
			}
			if prm, isP := callArgs(c)[0].(*ssa.Parameter); isP {
				// a helper that is told the length: what is decided is what the callers that hand the map on pass for it
				idx := -1
				for k, q := range fn.Params {
					if q == prm {
						idx = k
					}
				}
				for _, f := range P.AllFuncs {
					if f.Blocks == nil || !inModuleFn(f) {
						continue
					}
					for _, ci := range callsIn(f) {
						cc, isCall := ci.(*ssa.Call)
						if !isCall || staticCallee(ci) != fn || idx < 0 || idx >= len(ci.Common().Args) {
							continue
						}
						hands := false
						for _, r := range returnsOf(f) {
							for k := 0; k < retCount(r); k++ {
								rv := retValue(r, k)
								if ex, isEx := rv.(*ssa.Extract); isEx {
									if _, isMap := ex.Type().Underlying().(*types.Map); !isMap {
										continue
									}
									rv = ex.Tuple
								}
								if rv == ssa.Value(cc) {
									hands = true
								}
							}
						}
						if !hands {
							continue
						}
						n++
						d := desc(ci.Common().Args[idx])
						okL := strings.Contains(d, "DefaultSystemParameters[1024]") && strings.HasSuffix(d, ".LmCommit")
						R.seen(FuncKey(f))
						R.decide(rule, FuncKey(f)+":secretkey-randomizer-length", "the randomizer filed under \"secretkey\" is drawn with LmCommit bits of the 1024-bit parameters", okL, "length: "+d+" (passed to "+FuncKey(fn)+")", P.Pos(ci.Pos()))
					}
				}
				return
			}
			n++
			d := desc(callArgs(c)[0])
			ok = strings.Contains(d, "DefaultSystemParameters[1024]") && strings.HasSuffix(d, ".LmCommit")
			R.seen(FuncKey(fn))
			R.decide(rule, FuncKey(fn)+":secretkey-randomizer-length", "the randomizer filed under \"secretkey\" is drawn with LmCommit bits of the 1024-bit parameters", ok, "length: "+d, P.Pos(c.Pos()))
		})
	}
	R.decide(rule, "sites:count", "a place where the shared secret-key randomizer is drawn was found (>= 1)", n >= 1, fmt.Sprintf("%d", n), "")
}
