#!/bin/bash
# usage: validate_seed.sh <dir with patch.diff, demo test, meta.json> [--notests]
# Applies the seeded change to a scratch worktree of /repo HEAD, runs: build, (suite), demo with/without change, and the checker.
export PATH=/opt/veriftools/go1.26.8/bin:$PATH GOFLAGS=-mod=mod GOPROXY=off GOSUMDB=off GOTOOLCHAIN=local GOWORK=off
D=$1; NOTESTS=${2:-}
PROP=$(python3 -c "import json;print(json.load(open('$D/meta.json'))['property'])")
PKG=$(python3 -c "import json;print(json.load(open('$D/meta.json')).get('demo_pkg','.'))")
W=$(mktemp -d /tmp/seedval.XXXXXX); rmdir $W
git -C /repo worktree add -q --detach $W HEAD || exit 2
trap 'git -C /repo worktree remove --force $W' EXIT
cd $W
if ! git apply --check $D/patch.diff 2>/dev/null; then echo "NOTE: patch does not apply verbatim at /repo HEAD (will try --3way)"; fi
DEMO=$(ls $D/*_test.go | head -1)
if [ -z "$NOTESTS" ]; then
  cp $DEMO $W/$PKG/
  echo "--- demo WITHOUT change:"; (cd $W/$PKG && go test -vet=off -count=1 -run 'TestSeeded' . 2>&1 | tail -3)
fi
git apply $D/patch.diff 2>/dev/null || git apply --3way $D/patch.diff || { echo "PATCH CANNOT BE APPLIED"; exit 1; }
go build ./... || { echo "BUILD FAILS"; exit 1; }
if [ -z "$NOTESTS" ]; then
  echo "--- demo WITH change:"; (cd $W/$PKG && go test -vet=off -count=1 -run 'TestSeeded' . 2>&1 | tail -3)
  rm -f $W/$PKG/$(basename $DEMO)
  echo "--- suite WITH change:"; go test -vet=off -count=1 ./... 2>&1 | grep -v "^ok" | tail -5; echo "(suite done)"
fi
echo "--- checker ($PROP):"
/verif/bin/gabilint -repo $W -prop $PROP -evidence "" -findings /verif/known_findings.json | grep -E "^property|VIOLATED|UNDECIDED|VIOLATION" | cut -c1-250
