#!/bin/bash
# usage: rebase_seed.sh <seeded dir> — re-creates patch.diff against /repo HEAD when it only applies with --3way
D=$1
W=$(mktemp -d /tmp/seedrb.XXXXXX); rmdir $W
git -C /repo worktree add -q --detach $W HEAD || exit 2
trap 'git -C /repo worktree remove --force $W' EXIT
cd $W
if git apply --check $D/patch.diff 2>/dev/null; then echo "applies verbatim"; exit 0; fi
git apply --3way $D/patch.diff >/dev/null 2>&1 || { echo "CANNOT REBASE $D"; exit 1; }
git diff HEAD > $D/patch.diff.new && mv $D/patch.diff.new $D/patch.diff && echo "rebased $D"
