#!/bin/bash
# usage: ctl.sh <outdir> <id> [prop] — show the alarms of one control
S=$(mktemp -d /tmp/ctl1.XXXX); rsync -a --exclude .git /repo/ $S/; (cd $S && patch -p1 -s < $1/$2/patch.diff); /verif/bin/gabilint -repo $S -prop ${3:-all} -evidence "" | grep -E "VIOLATED|UNDECIDED" -A${4:-2} | cut -c1-${5:-600}; rm -rf $S
