#!/bin/bash
# thorough tier:
#  1. the property's rules on /repo's current tree in every build configuration that selects different
#     source files or integer sizes: host (linux/amd64), linux/386 (32-bit int: strconv.IntSize, uint
#     wrap-around clauses) and android/arm64 (safeprime stub instead of the generator);
#  2. only if the tree is clean: self-test of the checker on the mutant corpus /verif/mutants/<Cnn>/ —
#     every stored single-edit variant of the current tree must be reported with its expected obligation,
#     every behaviour-preserving control must stay silent. Variants are built in a scratch directory that
#     is removed afterwards; patches that no longer apply to the current tree are counted as skipped.
# Nothing in /repo is executed at any point.
set -u
cd "$(dirname "$0")"
PROP="$1"; REPO="$2"
EV=/verif/evidence
S=$(mktemp -d /tmp/gabithorough.XXXXXX); trap 'rm -rf "$S"' EXIT
bin/gabilint -repo "$REPO" -prop "$PROP" -tier thorough -evidence $EV -findings /verif/known_findings.json > $S/host.out 2>&1
RC=$?
cat $S/host.out
[ $RC -ne 0 ] && exit 1
declare -A CFG=( [linux/386]="-goos linux -goarch 386" [android/arm64]="-goos android -goarch arm64" )
for c in linux/386 android/arm64; do
  d=$S/ev_${c//\//_}; mkdir -p $d
  bin/gabilint -repo "$REPO" -prop "$PROP" -tier thorough -evidence $d -findings /verif/known_findings.json ${CFG[$c]} > $S/cfg.out 2>&1
  rc=$?
  # the replay file of a failing configuration is the one the checker just wrote under /verif/replay
  grep -E "^property=|VIOLATED|UNDECIDED|load-failure" $S/cfg.out | cut -c1-400
  if [ $rc -ne 0 ]; then
    mkdir -p /verif/replay; cp $S/replay/$PROP.violations.json /verif/replay/ 2>/dev/null
    echo "VIOLATION property=$PROP replay=/verif/replay/$PROP.violations.json"
    # make the failing configuration's evidence the property's evidence
    cp $d/$PROP.json $EV/$PROP.json 2>/dev/null
    exit 1
  fi
done
# ---- self-test on the mutant corpus
N=0; CAUGHT=0; CTL=0; SKIP=0; MISS=""
if [ -d mutants/$PROP ]; then
  rsync -a --exclude .git "$REPO"/ $S/base/
  run_one() {
    p=$1; S=$2; PROP=$3
    name=$(basename $p .patch); d=$S/m_$name
    cp -r $S/base $d
    if ! (cd $d && patch -p1 -s --no-backup-if-mismatch < /verif/$p >/dev/null 2>&1); then echo "SKIP $name"; rm -rf $d; return; fi
    kind=$(cat /verif/mutants/$PROP/$name.kind 2>/dev/null || echo mutant)
    if [ "$kind" = control ]; then
      if /verif/bin/gabilint -repo $d -prop $PROP -evidence "" -findings /verif/known_findings.json >$d.out 2>&1; then echo "CTL-OK $name"; else echo "CTL-ALARM $name"; fi
    else
      exp=$(cat /verif/mutants/$PROP/$name.expect)
      if /verif/bin/gabilint -repo $d -prop $PROP -evidence "" -findings /verif/known_findings.json -expect "$exp" >$d.out 2>&1; then echo "CAUGHT $name"; else echo "MISSED $name"; fi
    fi
    rm -rf $d $d.out
  }
  export -f run_one
  ls mutants/$PROP/*.patch 2>/dev/null | xargs -P 6 -I{} bash -c 'run_one {} '"$S $PROP" > $S/self.out
  N=$(grep -c . $S/self.out); CAUGHT=$(grep -c "^CAUGHT" $S/self.out); CTL=$(grep -c "^CTL-OK" $S/self.out); SKIP=$(grep -c "^SKIP" $S/self.out)
  MISS=$(grep -E "^MISSED|^CTL-ALARM" $S/self.out | tr '\n' ';')
  echo "selftest property=$PROP variants=$N caught=$CAUGHT controls_silent=$CTL skipped=$SKIP ${MISS:+FAILED: $MISS}"
fi
# ---- the property's negative controls (behaviour-preserving refactorings, controls/<Cnn>-*) must stay silent and its
# ---- seeded changes (seeded/<Cnn>-*) must be reported, under this property's own rules
RN=0; RSIL=0; RAL=""; SN=0; SC=0; SMISS=""
if [ -d "$S/base" ] || rsync -a --exclude .git "$REPO"/ $S/base/; then
  run_ctl() {
    d=$1; S=$2; PROP=$3; kind=$4
    id=$(basename $d); w=$S/c_${kind}_$id
    cp -r $S/base $w
    if ! (cd $w && patch -p1 -s --no-backup-if-mismatch < $d/patch.diff >/dev/null 2>&1); then echo "SKIP $id"; rm -rf $w; return; fi
    if /verif/bin/gabilint -repo $w -prop $PROP -evidence "" -findings /verif/known_findings.json >$w.out 2>&1; then echo "SILENT $id"; else echo "REPORTED $id"; fi
    rm -rf $w $w.out
  }
  export -f run_ctl
  ls -d /verif/controls/$PROP-* 2>/dev/null | xargs -r -P 6 -I{} bash -c 'run_ctl {} '"$S $PROP ctl" > $S/ctl.out
  RN=$(grep -c . $S/ctl.out); RSIL=$(grep -c "^SILENT" $S/ctl.out); RAL=$(grep "^REPORTED" $S/ctl.out | awk '{print $2}' | tr '\n' ' ')
  ls -d /verif/seeded/$PROP-* 2>/dev/null | xargs -r -P 6 -I{} bash -c 'run_ctl {} '"$S $PROP seed" > $S/seed.out
  SN=$(grep -c . $S/seed.out); SC=$(grep -c "^REPORTED" $S/seed.out); SMISS=$(grep "^SILENT" $S/seed.out | awk '{print $2}' | tr '\n' ' ')
  echo "selftest property=$PROP refactoring_controls=$RN silent=$RSIL ${RAL:+ALARMED: $RAL}seeded_changes=$SN reported=$SC ${SMISS:+missed: $SMISS}"
fi
python3 - "$EV/$PROP.json" "$N" "$CAUGHT" "$CTL" "$SKIP" "$MISS" "$S" "$RN" "$RSIL" "$RAL" "$SN" "$SC" "$SMISS" <<'PY'
import json,sys,glob,os
f,n,c,ctl,skip,miss,S=sys.argv[1:8]
rn,rsil,ral,sn,sc,smiss=sys.argv[8:14]
e=json.load(open(f))
cov=e['coverage']
cfgs=[{"config":"host (linux/amd64)","obligations":cov.get('obligations'),"discharged":cov.get('discharged')}]
for d in sorted(glob.glob(S+'/ev_*')):
    g=glob.glob(d+'/*.json')
    if g:
        x=json.load(open(g[0]))['coverage']
        cfgs.append({"config":os.path.basename(d)[3:].replace('_','/'),"obligations":x.get('obligations'),"discharged":x.get('discharged')})
cov['build_configurations']=cfgs
cov['checker_selftest']={"variants":int(n),"mutants_caught":int(c),"controls_silent":int(ctl),"skipped_patch_does_not_apply":int(skip),"failed":miss,
  "what":"each variant is a stored single-edit change of /repo (mutants/<id>/*.patch) that breaks one obligation and still compiles; the checker must report the expected obligation; controls are behaviour-preserving edits on which it must stay silent"}
cov['negative_controls']={"behaviour_preserving_changes":int(rn),"silent":int(rsil),"alarmed":ral.split(),
  "what":"refactorings written by sub-agents that leave behaviour unchanged (controls/<id>/): this property's rules must not report them"}
cov['seeded_changes']={"property_breaking_changes":int(sn),"reported":int(sc),"missed":smiss.split(),
  "what":"changes written by sub-agents that break this property while compiling and passing the test suite (seeded/<id>/): this property's rules must report them; the misses are the by-design ones listed in DESIGN.md"}
json.dump(e,open(f,'w'),indent=1)
PY
if [ -n "$MISS" ]; then
  # the verdict on /repo above stands on its own; a failing self-test is recorded in the evidence and shown here
  echo "SELFTEST-FAILED property=$PROP (the checker's detection power regressed on: $MISS)"
fi
exit 0
