#!/bin/bash
# thorough tier: all build configurations (+ checker self-test on the mutant corpus when present)
set -u
cd "$(dirname "$0")"
PROP="$1"; REPO="$2"
exec bin/gabilint -repo "$REPO" -prop "$PROP" -tier thorough -evidence /verif/evidence -findings /verif/known_findings.json
