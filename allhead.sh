#!/bin/bash
# runs every property on /repo HEAD (quick) and prints one line per property plus any alarm
cd /verif
for p in C01 C02 C03 C04 C05 C06 C07 C08 C09 C10 C11 C12 C13 C14 C15 C16 C17 C18 C19 C20; do echo $p; done | xargs -P 10 -I{} sh -c 'bin/gabilint -repo /repo -prop {} -evidence "" > /tmp/allhead.{}.out 2>&1'
for p in C01 C02 C03 C04 C05 C06 C07 C08 C09 C10 C11 C12 C13 C14 C15 C16 C17 C18 C19 C20; do grep -E "^property|VIOLATED|UNDECIDED" -A1 /tmp/allhead.$p.out | grep -v "^KNOWN" | cut -c1-220; rm -f /tmp/allhead.$p.out; done
