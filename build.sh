#!/bin/bash
# builds /verif/bin/gabilint from /verif/checker if sources are newer than the binary (offline)
set -e
cd "$(dirname "$0")"
export PATH=/opt/veriftools/go1.26.8/bin:$PATH GOFLAGS=-mod=mod GOPROXY=off GOSUMDB=off GOTOOLCHAIN=local GOWORK=off
mkdir -p bin evidence
if [ ! -x bin/gabilint ] || [ -n "$(find checker -newer bin/gabilint \( -name '*.go' -o -name go.mod -o -name '*.txt' \) -print -quit)" ]; then
  (cd checker && go build -o ../bin/gabilint .)
fi
