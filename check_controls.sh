#!/bin/bash
# usage: check_controls.sh <dir with <id>/patch.diff behaviour-preserving changes>
# Applies each to a scratch copy of /repo's current tree and runs ALL properties' rules on it: any VIOLATED/UNDECIDED line is a false alarm.
cd "$(dirname "$0")"; ./build.sh >/dev/null
OUT=${1:-/verif/controls}
S=$(mktemp -d /tmp/gabictl.XXXXXX); trap 'rm -rf "$S"' EXIT
rsync -a --exclude .git /repo/ $S/base/
one() {
  d=$1; S=$2; id=$(basename $d)
  cp -r $S/base $S/$id
  if ! (cd $S/$id && patch -p1 -s --no-backup-if-mismatch < $d/patch.diff >/dev/null 2>&1); then echo "NOAPPLY $id"; rm -rf $S/$id; return; fi
  /verif/bin/gabilint -repo $S/$id -prop all -evidence "" -findings /verif/known_findings.json > $S/$id.out 2>&1
  n=$(grep -cE '^\s+(VIOLATED|UNDECIDED)|load-failure' $S/$id.out)
  if [ "$n" = 0 ]; then echo "SILENT $id"; else echo "ALARM $id"; grep -E '^\s+(VIOLATED|UNDECIDED)|load-failure' $S/$id.out | cut -c1-260 | sed "s/^/      /"; fi
  rm -rf $S/$id $S/$id.out
}
export -f one
ls -d $OUT/C[0-9][0-9]-[0-9]* 2>/dev/null | xargs -r -P 8 -I{} bash -c "one {} $S" 
