#!/bin/bash
# usage: run_check.sh <Cnn> <quick|thorough> [--only <violations.json>]
# Static analysis of /repo's current working tree (override with GABI_REPO). Nothing in /repo is executed.
set -u
cd "$(dirname "$0")"
export PATH=/opt/veriftools/go1.26.8/bin:$PATH GOFLAGS=-mod=mod GOPROXY=off GOSUMDB=off GOTOOLCHAIN=local GOWORK=off
PROP="$1"; TIER="${2:-${VERIF_TIER:-quick}}"; shift; shift || true
./build.sh >/dev/null || { echo "checker build failed"; echo "VIOLATION property=$PROP replay=/verif/replay/$PROP.violations.json"; exit 1; }
ONLY=""
if [ "${1:-}" = "--only" ]; then ONLY="-only $2"; fi
REPO="${GABI_REPO:-/repo}"
if [ "$TIER" = "thorough" ]; then
  exec ./thorough.sh "$PROP" "$REPO"
fi
exec bin/gabilint -repo "$REPO" -prop "$PROP" -tier quick -evidence /verif/evidence -findings /verif/known_findings.json $ONLY
